#!/bin/bash
# usage: run_all_seeds.sh <root> <ids...>   run the quick check of each seeded change's property against it
ROOT=$1; shift
mkdir -p $ROOT/results
for i in "$@"; do
  /verif/tools/try_seed.sh $ROOT/$i/out quick $i > $ROOT/results/$i.txt 2>&1
  tail -1 $ROOT/results/$i.txt
done
