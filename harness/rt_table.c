#include <string.h>

#include "rt.h"
extern const harness_t h_deque, h_mpmc, h_queue, h_ring, h_workq, h_dwcas, h_hazard;
extern const harness_t h_io, h_litmus;
extern const harness_t h_mutex, h_yield, h_sem, h_rwlock, h_barrier, h_spin, h_cond, h_join, h_chan, h_msig, h_sleep, h_mchan;
static const harness_t* const subs[] = {&h_mutex, &h_yield, &h_sem, &h_rwlock, &h_barrier, &h_spin, &h_cond, &h_join, &h_chan, &h_msig, &h_sleep, &h_mchan, &h_io, 0};

// "mixed": every sub-harness is active; ops are dispatched to whoever knows them
static void mixed_setup(void) {
  for (int i = 0; subs[i]; i++)
    if (subs[i]->setup) subs[i]->setup();
}
static int mixed_do_op(int idx, op_t* op) {
  for (int i = 0; subs[i]; i++)
    if (subs[i]->do_op && subs[i]->do_op(idx, op)) return 1;
  return 0;
}
static int mixed_at_quiescence(void) {
  for (int i = 0; subs[i]; i++)
    if (subs[i]->at_quiescence && subs[i]->at_quiescence()) return 1;
  return 0;
}
static void mixed_final(void) {
  for (int i = 0; subs[i]; i++)
    if (subs[i]->final_check) subs[i]->final_check();
  // C01/C02(b): >= 2 kernel threads, a steal, and a wake-up that arrived before the sleeper had switched away
  if (g_case.threads >= 2 && g_steals() > 0) vs_label_add("nt_steal", 1);
  if (g_case.threads >= 2 && g_steals() > 0 && g_early_wakes() > 0) vs_label_add("nt_steal_early", 1);
  if (g_case.threads >= 2 && g_steals() > 0) vs_label_add("nontrivial", 1);
}
const harness_t h_mixed = {"mixed", mixed_setup, mixed_do_op, mixed_at_quiescence, mixed_final, 0};

const harness_t* const all_harnesses[] = {&h_mutex, &h_yield, &h_sem, &h_rwlock, &h_barrier, &h_spin, &h_cond, &h_join, &h_chan, &h_msig, &h_sleep, &h_mchan, &h_io, &h_mixed, &h_deque, &h_mpmc, &h_queue, &h_ring, &h_workq, &h_dwcas, &h_hazard, &h_litmus, 0};
