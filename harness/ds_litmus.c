// TSO litmus self-check for the engine (run by selfcheck.sh, not a property check).
// SB must be observable in TSO mode and never under SC; MP, LB, 2+2W and IRIW outcomes must never appear.
#include <stdatomic.h>
#include <string.h>

#include "rt.h"

static volatile long X, Y;
static _Atomic long AX, AY;
static long r[8];
static int kind;

static void* t_body(void* p) {
  int t = (int)(intptr_t)p;
  switch (kind) {
    case 0:  // SB: plain stores, then loads
      if (t == 0) { X = 1; r[0] = Y; } else { Y = 1; r[1] = X; }
      break;
    case 1:  // MP: data then flag (both stores buffered FIFO); reader sees flag => must see data
      if (t == 0) { X = 1; Y = 1; } else { r[0] = Y; r[1] = X; }
      break;
    case 2:  // LB: load then store
      if (t == 0) { r[0] = X; Y = 1; } else { r[1] = Y; X = 1; }
      break;
    case 3:  // SB with a full fence between: forbidden again
      if (t == 0) { X = 1; atomic_thread_fence(memory_order_seq_cst); r[0] = Y; } else { Y = 1; atomic_thread_fence(memory_order_seq_cst); r[1] = X; }
      break;
    case 4:  // 2+2W
      if (t == 0) { X = 1; Y = 2; } else { Y = 1; X = 2; }
      break;
    case 5:  // IRIW: two writers, two readers must agree on the order
      if (t == 0) X = 1;
      else if (t == 1) Y = 1;
      else if (t == 2) { r[0] = X; r[1] = Y; }
      else { r[2] = Y; r[3] = X; }
      break;
    case 6:  // SB with release atomics (still reorderable on x86) 
      if (t == 0) { atomic_store_explicit(&AX, 1, memory_order_release); r[0] = atomic_load_explicit(&AY, memory_order_acquire); }
      else { atomic_store_explicit(&AY, 1, memory_order_release); r[1] = atomic_load_explicit(&AX, memory_order_acquire); }
      break;
    case 7:  // SB with seq_cst stores: forbidden
      if (t == 0) { atomic_store(&AX, 1); r[0] = atomic_load(&AY); } else { atomic_store(&AY, 1); r[1] = atomic_load(&AX); }
      break;
  }
  return 0;
}

static void litmus_entry(void* a) {
  (void)a;
  kind = (int)cfg_get("litmus", 0);
  int n = kind == 5 ? 4 : 2;
  int tids[4];
  for (int i = 0; i < n; i++) tids[i] = vs_thread_create(t_body, (void*)(intptr_t)i);
  for (int i = 0; i < n; i++) vs_thread_join(tids[i]);
  vs_drain();
  int weak = 0;
  switch (kind) {
    case 0: case 3: case 6: case 7: weak = r[0] == 0 && r[1] == 0; break;
    case 1: weak = r[0] == 1 && r[1] == 0; break;
    case 2: weak = r[0] == 1 && r[1] == 1; break;
    case 4: weak = X == 1 && Y == 1; break;
    case 5: weak = r[0] == 1 && r[1] == 0 && r[2] == 1 && r[3] == 0; break;
  }
  vs_label_add("runs", 1);
  if (weak) vs_label_add("weak_outcome", 1);
}
const harness_t h_litmus = {"litmus", 0, 0, 0, 0, 0, litmus_entry};
