#!/usr/bin/env python3
"""Archive a confirmed seeded change under /verif/seeded/<name>/:
   patch.diff, the demonstration (demo.c, run.sh, NOTES.md), meta.json, and the replay(s) our checks found.
   usage: archive_seed.py <seed root, e.g. /tmp/seed> <id, e.g. C07> <round tag, e.g. r1> [<needs text>]"""
import glob
import json
import os
import re
import shutil
import sys

root, pid, tag = sys.argv[1], sys.argv[2], sys.argv[3]
src = os.path.join(root, pid)
out = os.path.join(src, "out")
dst = os.path.join("/verif/seeded", "%s-%s" % (pid, tag))
os.makedirs(dst, exist_ok=True)
for f in ("patch.diff", "demo.c", "run.sh", "NOTES.md"):
    p = os.path.join(out, f)
    if os.path.exists(p):
        shutil.copy(p, os.path.join(dst, f))
confirm = {}
cp = os.path.join(src, "confirm.json")
if os.path.exists(cp):
    confirm = json.load(open(cp))
res_path = os.path.join(root, "results", pid + ".txt")
res_txt = open(res_path, errors="replace").read() if os.path.exists(res_path) else ""
caught = bool(re.search(r"RESULT .* rc=1", res_txt))
kinds = sorted(set(re.findall(r"violation kind=(\S+)", res_txt)))
found = []
for d in glob.glob(os.path.join(out, "found_*")):
    for f in sorted(glob.glob(os.path.join(d, "*.json")))[:2]:
        name = "found_" + os.path.basename(f)
        shutil.copy(f, os.path.join(dst, name))
        found.append(name)
notes = open(os.path.join(out, "NOTES.md"), errors="replace").read() if os.path.exists(os.path.join(out, "NOTES.md")) else ""
meta = {
    "property": pid,
    "round": tag,
    "base_commit_of_patch": os.popen("git -C %s rev-parse --short HEAD" % src).read().strip(),
    "what_it_needs": (sys.argv[4] if len(sys.argv) > 4 else ""),
    "independent_confirmation": {
        "how": "tools/confirm_seed.sh in the agent's scratch worktree: apply patch, full cmake build, ctest twice (second run re-runs failures), out/run.sh with the change, revert, rebuild, out/run.sh without",
        "ctest_with_change": confirm.get("ctest_with_change"),
        "ctest_rerun_of_failures": confirm.get("ctest_rerun_failed"),
        "demo_exit_with_change": confirm.get("demo_rc_with_change"),
        "demo_exit_without_change": confirm.get("demo_rc_without_change"),
        "demo_output_tail_with_change": (confirm.get("with_tail") or "")[-300:],
        "demo_output_tail_without_change": (confirm.get("without_tail") or "")[-200:],
    },
    "our_checks": {
        "how": "tools/try_seed.sh: git -C /repo apply patch.diff; ./check %s quick; git -C /repo checkout -- ." % pid,
        "caught_by_quick_check": caught,
        "violation_kinds": kinds,
        "replays_found": found,
        "log_tail": res_txt[-600:],
    },
}
json.dump(meta, open(os.path.join(dst, "meta.json"), "w"), indent=1)
print(dst, "caught" if caught else "NOT caught", kinds)
