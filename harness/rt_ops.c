// rt_ops.c - instrumented side of the runtime runner: main flow of one
// execution and the generic op interpreter.  Harness-specific ops live in
// rt_h_*.c.
#include <stdint.h>
#include <stdio.h>
#include <string.h>
#include <sys/resource.h>
#include <unistd.h>

#include "fiber_io.h"
#include "fiber_manager.h"
#include "fiber_spinlock.h"
#include "fiber_cond.h"
#include "fiber_barrier.h"
#include "fiber_rwlock.h"
#include "fiber_semaphore.h"
#include "fiber_mutex.h"
#include "fiber_scheduler.h"
#include "work_stealing_deque.h"
#include "fiber_event.h"
#include "rt.h"

extern const harness_t* rt_harness(void);
extern void rt_install_quiescence(void);

static volatile long work_cell[MAX_FIBERS];
fiber_t* rt_fibers[MAX_FIBERS];
static void* main_slot;

// what program fiber idx returns from its function: a value that identifies it, or (cfg ret_special k > 0) one of the values a
// library might be tempted to use as an in-band marker: NULL, -1, -2, -3, 1, 2
void* rt_token(int idx) {
  static const intptr_t special[] = {0, -1, -2, -3, 1, 2};
  if (cfg_get("ret_null", 0) == idx + 1) return 0;   // this one fiber returns NULL
  long k = cfg_get("ret_special", 0);
  if (k > 0) return (void*)special[(idx + k) % 6];
  return (void*)(intptr_t)(0x1000 + idx);
}
void rt_work(int idx, int n) {
  for (int i = 0; i < n; i++) work_cell[idx] += i;
}

// "lifecycle k": a private, short-lived synchronisation object on the fiber's own stack (memory that is not zero): initialised,
// used without contention, results of the try variants checked, destroyed - while the long-lived objects of the case are in use
#define LC_FAIL(...) vs_violation("lifecycle_result", __VA_ARGS__)
static void rt_lifecycle(int idx, int kind) {
  switch (((kind % 6) + 6) % 6) {
    case 0: {
      fiber_mutex_t m;
      rt_dirty(&m, sizeof m);
      fiber_mutex_init(&m);
      fiber_mutex_lock(&m);
      if (fiber_mutex_trylock(&m) == FIBER_SUCCESS) LC_FAIL("fiber %d: trylock of its own locked private mutex succeeded", idx);
      fiber_mutex_unlock(&m);
      if (fiber_mutex_trylock(&m) != FIBER_SUCCESS) LC_FAIL("fiber %d: trylock of a free private mutex failed", idx);
      fiber_mutex_unlock(&m);
      fiber_mutex_destroy(&m);
      break;
    }
    case 1: {
      fiber_semaphore_t s;
      rt_dirty(&s, sizeof s);
      fiber_semaphore_init(&s, 2);
      fiber_semaphore_wait(&s);
      if (fiber_semaphore_trywait(&s) != FIBER_SUCCESS) LC_FAIL("fiber %d: trywait on a private semaphore holding one unit failed", idx);
      if (fiber_semaphore_trywait(&s) == FIBER_SUCCESS) LC_FAIL("fiber %d: trywait on an empty private semaphore succeeded", idx);
      fiber_semaphore_post(&s);
      fiber_semaphore_post(&s);
      if (fiber_semaphore_getvalue(&s) != 2) LC_FAIL("fiber %d: private semaphore value %d after init 2, two waits, two posts", idx, fiber_semaphore_getvalue(&s));
      fiber_semaphore_destroy(&s);
      break;
    }
    case 2: {
      fiber_rwlock_t l;
      rt_dirty(&l, sizeof l);
      fiber_rwlock_init(&l);
      fiber_rwlock_rdlock(&l);
      if (fiber_rwlock_tryrdlock(&l) != FIBER_SUCCESS) LC_FAIL("fiber %d: second read hold on a private rwlock refused", idx);
      if (fiber_rwlock_trywrlock(&l) == FIBER_SUCCESS) LC_FAIL("fiber %d: trywrlock succeeded on a private rwlock with two read holds", idx);
      fiber_rwlock_rdunlock(&l);
      fiber_rwlock_rdunlock(&l);
      fiber_rwlock_wrlock(&l);
      if (fiber_rwlock_tryrdlock(&l) == FIBER_SUCCESS) LC_FAIL("fiber %d: tryrdlock succeeded on a write-locked private rwlock", idx);
      fiber_rwlock_wrunlock(&l);
      if (fiber_rwlock_trywrlock(&l) != FIBER_SUCCESS) LC_FAIL("fiber %d: trywrlock of a free private rwlock failed", idx);
      fiber_rwlock_wrunlock(&l);
      fiber_rwlock_destroy(&l);
      break;
    }
    case 3: {
      fiber_barrier_t b;
      rt_dirty(&b, sizeof b);
      fiber_barrier_init(&b, 1);
      for (int i = 0; i < 3; i++)
        if (fiber_barrier_wait(&b) != FIBER_BARRIER_SERIAL_FIBER) LC_FAIL("fiber %d: the only participant of a private barrier was not the serial fiber in round %d", idx, i + 1);
      fiber_barrier_destroy(&b);
      break;
    }
    case 4: {
      fiber_mutex_t m;
      fiber_cond_t c;
      rt_dirty(&m, sizeof m);
      rt_dirty(&c, sizeof c);
      fiber_mutex_init(&m);
      fiber_cond_init(&c);
      fiber_cond_signal(&c);
      fiber_mutex_lock(&m);
      fiber_cond_broadcast(&c);
      fiber_mutex_unlock(&m);
      fiber_cond_signal(&c);
      fiber_cond_destroy(&c);
      fiber_mutex_destroy(&m);
      break;
    }
    default: {
      fiber_spinlock_t s;
      rt_dirty(&s, sizeof s);
      fiber_spinlock_init(&s);
      fiber_spinlock_lock(&s);
      if (fiber_spinlock_trylock(&s) == FIBER_SUCCESS) LC_FAIL("fiber %d: trylock of its own held private spinlock succeeded", idx);
      fiber_spinlock_unlock(&s);
      if (fiber_spinlock_trylock(&s) != FIBER_SUCCESS) LC_FAIL("fiber %d: trylock of a free private spinlock failed", idx);
      fiber_spinlock_unlock(&s);
      fiber_spinlock_destroy(&s);
      break;
    }
  }
}

static void* fiber_body(void* p) {
  const int idx = (int)(intptr_t)p;
  const harness_t* H = rt_harness();
  g_bind(idx);
  for (int k = 0; k < g_case.n_ops[idx]; k++) {
    op_t* op = &g_case.ops[idx][k];
    g_set_op(idx, k);
    if (!strcmp(op->name, "yield")) {
      for (int i = 0; i < (op->a > 0 ? op->a : 1); i++) {
        int before = g_fiber_switches(idx);
        g_yield_begin(idx);
        fiber_yield();
        if (g_fiber_switches(idx) == before) g_yield_noswitch(idx);
      }
    } else if (!strcmp(op->name, "work")) {
      rt_work(idx, op->a);
    } else if (!strcmp(op->name, "lifecycle")) {
      rt_lifecycle(idx, op->a);
    } else if (!strcmp(op->name, "lockwork")) {
      // fiber_io_lock_thread(): "on this kernel thread the libc calls are the real ones until I unlock" - held across plain
      // work only (the fiber does not give up its kernel thread in between); other kernel threads are not concerned
      fiber_io_lock_thread();
      rt_work(idx, op->a);
      fiber_io_unlock_thread();
    } else if (!strcmp(op->name, "lockyield")) {
      // the same, but the fiber yields while its kernel thread is marked (only in programs that make no shimmed calls)
      fiber_io_lock_thread();
      for (int i = 0; i < (op->a > 0 ? op->a : 1); i++) {
        int before = g_fiber_switches(idx);
        g_yield_begin(idx);
        fiber_yield();
        if (g_fiber_switches(idx) == before) g_yield_noswitch(idx);
      }
      fiber_io_unlock_thread();
    } else if (!strcmp(op->name, "nop") || (!strcmp(op->name, "target") && op->a < 0)) {
    } else if (!H->do_op(idx, op)) {
      vs_violation("engine_limit", "unknown op %s", op->name);
    }
  }
  g_set_op(idx, g_case.n_ops[idx]);
  g_done(idx);
  return rt_token(idx);
}

static int is_target(int idx) { return g_case.n_ops[idx] > 0 && !strcmp(g_case.ops[idx][0].name, "target"); }

static fiber_t* rt_create(int idx) {
  size_t stack = (size_t)cfg_get("stack", 65536);
  g_expect_spawn(idx);
  fiber_t* f = fiber_create_no_sched(stack, &fiber_body, (void*)(intptr_t)idx);
  if (!f) vs_violation("engine_limit", "fiber_create failed");
  rt_fibers[idx] = f;
  // program fibers are detached unless they are join targets (first op "target")
  if (cfg_get("detach", 1) && !is_target(idx)) fiber_detach(f);
  return f;
}

int rt_join(int idx, void** result) { return fiber_join(rt_fibers[idx], result); }
void rt_spawn(int idx) {
  fiber_t* f = rt_create(idx);
  fiber_manager_schedule(fiber_manager_get(), f);
}

void rt_main(void* arg) {
  (void)arg;
  const harness_t* H = rt_harness();
  rt_install_quiescence();
  // cfg rlimit_soft: the process starts with a soft descriptor limit below the hard one and raises it after the runtime is up
  // (descriptors numbered above the initial soft limit are then perfectly valid)
  struct rlimit rl_saved, rl_low;
  const long soft = cfg_get("rlimit_soft", 0);
  if (soft > 0 && !getrlimit(RLIMIT_NOFILE, &rl_saved) && (rlim_t)soft < rl_saved.rlim_cur) {
    rl_low = rl_saved;
    rl_low.rlim_cur = (rlim_t)soft;
    setrlimit(RLIMIT_NOFILE, &rl_low);
  }
  if (fiber_manager_init((size_t)g_case.threads) != FIBER_SUCCESS) vs_violation("engine_limit", "fiber_manager_init failed");
  if (soft > 0) setrlimit(RLIMIT_NOFILE, &rl_saved);
  // only the owning kernel thread moves 'bottom' of its two run queues (thieves advance 'top')
  for (int t = 0; t < g_case.threads; t++) {
    struct { wsd_work_stealing_deque_t* q1; wsd_work_stealing_deque_t* q2; }* sc = (void*)fiber_scheduler_for_thread((size_t)t);
    vs_owner_only((void*)&sc->q1->bottom, sizeof sc->q1->bottom, "bottom of a kernel thread's run queue");
    vs_owner_only((void*)&sc->q2->bottom, sizeof sc->q2->bottom, "bottom of a kernel thread's run queue");
  }
  const long defer_from = cfg_get("defer_from", MAX_FIBERS);
  // create every fiber before any of them can run (handles must exist when actors start)
  for (int i = 0; i < g_case.n_fibers && i < defer_from; i++) rt_create(i);
  // objects are initialised after the fibers exist (so harnesses can watch fiber words) but before any of them can run
  if (H->setup) H->setup();
  for (int i = 0; i < g_case.n_fibers && i < defer_from; i++) fiber_manager_schedule(fiber_manager_get(), rt_fibers[i]);
  // park the main fiber for good; the verdict is reached at quiescence
  fiber_manager_set_and_wait(fiber_manager_get(), &main_slot, (void*)1);
  vs_violation("engine_limit", "main fiber resumed");
}

// resume a fiber parked with fiber_manager_set_and_wait on 'slot' (used by
// harness controllers; same two calls fiber_join is built on)
void rt_unpark(void** slot) {
  fiber_t* f = (fiber_t*)fiber_manager_clear_or_wait(fiber_manager_get(), (_Atomic(void*)*)slot);
  f->state = FIBER_STATE_READY;
  fiber_manager_schedule(fiber_manager_get(), f);
}
void rt_park(void** slot) {
  fiber_manager_t* m = fiber_manager_get();
  fiber_manager_set_and_wait(m, slot, m->current_fiber);
}
