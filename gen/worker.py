"""One Hypothesis worker: generates cases for one property, runs them through
the runner, shrinks the first unlisted violation, writes a result JSON."""
import argparse
import json
import os
import sys
import time

sys.path.insert(0, os.path.dirname(os.path.abspath(__file__)))

from hypothesis import HealthCheck, Phase, Verbosity, given, seed, settings

import common
import props


class Violation(Exception):
    pass


def fail(kind):
    # one raise site for every failure: Hypothesis tells failures apart by the innermost raising line
    raise Violation(kind)


def main():
    ap = argparse.ArgumentParser()
    ap.add_argument("--prop", required=True)
    ap.add_argument("--tier", default="quick")
    ap.add_argument("--seed", type=int, default=1)
    ap.add_argument("--worker", type=int, default=0)
    ap.add_argument("--nworkers", type=int, default=1)
    ap.add_argument("--out", required=True)
    ap.add_argument("--budget", type=float, default=60.0)
    a = ap.parse_args()

    spec = props.SPECS[a.prop]
    tier = a.tier
    known = common.load_known(a.prop)
    stats = common.Stats()
    workdir = os.path.join(common.BUILD, "tmp", a.prop, "w%d" % a.worker)
    t0 = time.time()
    state = {"last_fail": None, "skipped": 0, "failing_calls": 0, "long_spent": 0.0}
    # long-stall runs: the runner names the stall schedules in which somebody was busy-waiting while a thread was held
    # ("long_candidates"). Such a schedule is run again with the thread held for up to LONG_STALL_POINTS scheduling points
    # (7-25 s of real time). Quick tier: at most one per worker and not in the last 20 s of its budget; thorough tier: up to 15 % of
    # the worker's budget.
    long_allow = 1.0 if tier == "quick" else 0.15 * a.budget
    wseed = (a.seed * 1000003 + a.worker * 7919 + 17) & 0x7FFFFFFF
    n_examples = max(1, spec.examples(tier) // a.nworkers)
    parts = spec.parts(tier)  # list of (name, strategy, runner args fn)
    # the parts run one after the other, each for its share of the time; every worker starts with a different one (long-stall runs
    # are only started early in a worker's budget, so each part has to come first somewhere)
    rot = a.worker % len(parts)
    parts = parts[rot:] + parts[:rot]

    result = {"violation": None}
    for part_i, part in enumerate(parts):
        pname, strat, nsched, extra = part["name"], props.dirty_wrap(part["strategy"], tier), part["nsched"], part.get("args", [])
        share = part.get("share", 1.0 / len(parts))
        n_ex = max(1, int(n_examples * share))
        budget_end = t0 + a.budget * sum(p.get("share", 1.0 / len(parts)) for p in parts[: part_i + 1])

        def body(case):
            if time.time() > budget_end and state["last_fail"] is None:
                state["skipped"] += 1
                return
            text = common.render_case(case)
            if state.get("long_fail") is not None:
                # a violation found by a long-stall run (seconds per execution) is not shrunk: only that exact program keeps failing
                if text == state["long_fail"]:
                    fail(state["last_fail"]["violation"]["kind"])
                return
            base_seed = (wseed * 31 + int(common.case_hash(text), 16)) & 0x7FFFFFFFFFFF
            # a case may cap its own number of schedules and add runner arguments (very large programs)
            ns = min(nsched, case["max_sched"]) if "max_sched" in case else nsched
            cextra = extra + list(case.get("args", []))
            res = common.run_runner(part.get("binary", spec.binary), text, workdir, ["--base-seed", base_seed, "--nsched", ns] + cextra)
            stats.add(text, res, classes=case.get("classes", ()))
            if res.get("inconclusive") and os.environ.get("VERIF_LONG_DEBUG"):
                with open(os.environ["VERIF_LONG_DEBUG"], "a") as lf_:
                    lf_.write("INCONCLUSIVE %s base_seed=%s ns=%s extra=%s n=%s\n%s\n" % (a.prop, base_seed, ns, cextra, res.get("inconclusive"), text))
            v = res.get("violation")
            cands = res.get("long_candidates") or []
            if (cands and not v and state["last_fail"] is None and state["long_spent"] < long_allow and "args" not in case
                    and time.time() + (25 if tier == "quick" else 40) < t0 + a.budget):
                t_run = time.time()
                largs = ["--only", cands[0], "--long-stall", props.LONG_STALL_POINTS]
                res2 = common.run_runner(part.get("binary", spec.binary), text, workdir, ["--base-seed", base_seed, "--nsched", ns] + cextra + largs)
                state["long_spent"] += time.time() - t_run
                if os.environ.get("VERIF_LONG_DEBUG"):
                    with open(os.environ["VERIF_LONG_DEBUG"], "a") as lf_:
                        lf_.write("%s w%d %.1fs at %.1fs points=%s inconcl=%s labels=%s\n%s\n" % (a.prop, a.worker, time.time() - t_run, t_run - t0, res2.get("points"), res2.get("inconclusive"), {k: v for k, v in res2.get("labels", {}).items() if "stall" in k}, text))
                stats.add_long(res2)
                if res2.get("violation"):
                    v = res2["violation"]
                    cextra = cextra + largs
            tol = res.get("tolerated_freed_reads") or {}
            unknown_site = False
            for site in tol.get("sites", []):
                k = common.match_known(known, case, site)
                if k is not None:
                    stats.known_hits[k["id"]] = stats.known_hits.get(k["id"], 0) + max(1, tol.get("count", 1) // max(1, len(tol["sites"])))
                else:
                    unknown_site = True
            if unknown_site and not v:
                # a read that was let through is not covered by the known-findings file: get the real verdict
                res = common.run_runner(part.get("binary", spec.binary), text, workdir, ["--base-seed", base_seed, "--nsched", ns, "--no-tolerate"] + cextra)
                v = res.get("violation")
                cextra = cextra + ["--no-tolerate"]
            if v:
                k = common.match_known(known, case, v)
                if k is not None:
                    stats.known_hits[k["id"]] = stats.known_hits.get(k["id"], 0) + 1
                    return
                state["last_fail"] = {"case": case, "text": text, "base_seed": base_seed, "nsched": ns, "violation": v, "part": pname, "args": cextra,
                                      "binary": part.get("binary", spec.binary)}
                state["failing_calls"] += 1
                if str(v.get("strategy", "")).startswith("long_"):
                    state["long_fail"] = text
                fail(v["kind"])

        # the time budget decides: Hypothesis runs in chunks (each a seeded run of its own) until the part's share of the budget is
        # used up or its example count is reached - no examples are generated only to be skipped
        chunk = 60 if tier == "quick" else 200
        def run_chunks():
            done = 0
            k = 0
            while done < n_ex and time.time() <= budget_end:
                n = min(chunk, n_ex - done)
                test = settings(max_examples=n, database=None, deadline=None, derandomize=False, report_multiple_bugs=False,
                                suppress_health_check=list(HealthCheck), phases=[Phase.generate, Phase.shrink], verbosity=Verbosity.quiet)(
                    seed(wseed + ((part_i + rot) % len(parts)) * 100003 + k * 7919)(given(strat)(body)))
                test()
                done += n
                k += 1
        try:
            run_chunks()
        except Violation:
            lf = state["last_fail"]
            # minimise the decision list of the (shrunk) failing program
            res = common.run_runner(lf["binary"], lf["text"], workdir, ["--base-seed", lf["base_seed"], "--nsched", lf["nsched"], "--minimise"] + lf["args"])
            v = res.get("violation") or lf["violation"]
            result["violation"] = {"property": a.prop, "part": lf["part"], "case": lf["case"], "case_text": lf["text"], "violation": v,
                                   "binary": lf["binary"], "args": lf["args"], "shrink_calls": state["failing_calls"]}
            break
        except Exception as e:  # harness problem: report loudly, never as a pass
            import traceback
            result["error"] = "%s: %s\n%s" % (type(e).__name__, e, traceback.format_exc())
            break

    result["stats"] = stats.to_json()
    result["skipped_after_budget"] = state["skipped"]
    result["wall_s"] = time.time() - t0
    result["worker_seed"] = wseed
    with open(a.out, "w") as f:
        json.dump(result, f)


if __name__ == "__main__":
    main()
