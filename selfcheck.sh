#!/bin/bash
# Engine self-checks, run once by setup_cmd (and whenever the engine changes):
#  1. x86-TSO litmus tests: SB (plain and release/acquire) must be observable with store buffers on and never
#     under SC; fenced SB, seq_cst SB, MP, LB, 2+2W and IRIW outcomes must never appear in either mode;
#  2. replay fidelity: every schedule re-executed from its recorded decision list must reproduce points,
#     verdict and trace hash exactly.
set -e
cd "$(dirname "$0")"
R=${VERIF_BUILD:-build}/runner_rt
[ -x $R ] || ./build.sh rt
mkdir -p build/tmp/selfcheck
fail=0
run_litmus() { # kind tso expect(weak: yes|no)
  printf 'harness litmus\nthreads 1\ncfg litmus %s\nfiber nop 0 0 0\n' $1 > build/tmp/selfcheck/l.txt
  out=$($R build/tmp/selfcheck/l.txt --nsched 3000 --base-seed 7 --tso $2 --all)
  weak=$(echo "$out" | python3 -c "import sys,json; r=json.loads(sys.stdin.read().strip().split('\n')[-1]); print(r['labels'].get('weak_outcome',[0,0])[0])")
  if [ "$3" = yes ] && [ "$weak" -eq 0 ]; then echo "SELFCHECK FAIL: litmus $1 tso=$2: weak outcome never observed"; fail=1; fi
  if [ "$3" = no ] && [ "$weak" -ne 0 ]; then echo "SELFCHECK FAIL: litmus $1 tso=$2: forbidden outcome observed $weak times"; fail=1; fi
  echo "litmus $1 tso=$2: weak outcomes $weak (expected: $3)"
}
run_litmus 0 2 yes; run_litmus 0 0 no
run_litmus 6 2 yes; run_litmus 6 0 no
for k in 1 2 3 4 5 7; do run_litmus $k 2 no; run_litmus $k 0 no; done
# replay fidelity on one runtime and one thread-level case
cat > build/tmp/selfcheck/m.txt <<'EOT'
harness mutex
threads 3
cfg nmutex 1
fiber lock 0 0 2 lock 0 1 0 yield 1 0 0 lock 0 0 0
fiber lock 0 1 0 trylock 0 0 0 lock 0 0 3
fiber trylock 0 0 0 lock 0 0 0 lock 0 0 0
EOT
cat > build/tmp/selfcheck/d.txt <<'EOT'
harness deque
threads 1
fiber push 3 0 0 pop 2 0 0 push 300 0 0 pop 5 0 0
fiber steal 20 1 0
fiber steal 30 0 0
EOT
for c in m d; do
  mm=$($R build/tmp/selfcheck/$c.txt --nsched 200 --base-seed 3 --tso 1 --check-replay --all 2>/dev/null | python3 -c "import sys,json; r=json.loads(sys.stdin.read().strip().split('\n')[-1]); print(r['replay_mismatch'], r['violation'] is not None)")
  echo "replay fidelity $c: mismatches/violation = $mm"
  [ "$mm" = "0 False" ] || { echo "SELFCHECK FAIL: replay fidelity $c"; fail=1; }
done
[ $fail = 0 ] && echo "selfcheck ok" || exit 1
