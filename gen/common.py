"""Shared plumbing for the Hypothesis front ends: case rendering, runner
invocation, statistics, known-finding matching, evidence."""
import hashlib
import json
import os
import re
import subprocess
import time

VERIF = os.path.dirname(os.path.dirname(os.path.abspath(__file__)))
OUT = os.environ.get("VERIF_OUT", VERIF)
BUILD = os.environ.get("VERIF_BUILD", os.path.join(VERIF, "build"))


def render_case(case):
    """case: dict(harness, threads, cfg: dict, fibers: [[(name,a,b,c),...],...])"""
    lines = ["harness %s" % case["harness"], "threads %d" % case["threads"]]
    for k, v in sorted(case.get("cfg", {}).items()):
        lines.append("cfg %s %d" % (k, int(v)))
    for ops in case["fibers"]:
        if not ops:
            ops = [("nop", 0, 0, 0)]
        lines.append("fiber " + " ".join("%s %d %d %d" % (o[0], o[1], o[2], o[3]) for o in ops))
    return "\n".join(lines) + "\n"


def case_hash(text):
    return hashlib.sha1(text.encode()).hexdigest()[:16]


class Stats:
    def __init__(self):
        self.programs = 0
        self.distinct_programs = set()
        self.executions = 0
        self.nontrivial = 0
        self.distinct_nontrivial = 0
        self.inconclusive = 0
        self.labels = {}
        self.strategies = {}
        self.samples = []
        self.known_hits = {}
        self.events = {}
        self.points = 0
        self.shrink_runs = 0

    def event(self, name):
        self.events[name] = self.events.get(name, 0) + 1

    def add(self, case_text, res, classes=()):
        h = case_hash(case_text)
        new = h not in self.distinct_programs
        self.programs += 1
        self.executions += res.get("executions", 0)
        self.points += res.get("points", 0)
        self.inconclusive += res.get("inconclusive", 0)
        for k, v in res.get("strategies", {}).items():
            self.strategies[k] = self.strategies.get(k, 0) + v
        if new:
            self.distinct_programs.add(h)
            self.nontrivial += res.get("nontrivial", 0)
            self.distinct_nontrivial += res.get("distinct_nontrivial", 0)
            for k, (s, r) in res.get("labels", {}).items():
                a = self.labels.setdefault(k, [0, 0])
                a[0] += s
                a[1] += r
            for c in classes:
                self.event(c)
            if res.get("distinct_nontrivial", 0) > 0 and len(self.samples) < 4:
                self.samples.append({"case": case_text.strip().split("\n"), "executions": res.get("executions"),
                                     "nontrivial_executions": res.get("nontrivial"), "labels": {k: v[0] for k, v in res.get("labels", {}).items()}})

    def add_long(self, res):
        """a long-stall run of one schedule of the program just added (runner called with --only i --long-stall N)"""
        self.executions += res.get("executions", 0)
        self.points += res.get("points", 0)
        self.inconclusive += res.get("inconclusive", 0)
        for k, v in res.get("strategies", {}).items():
            if k.startswith("long_"):
                self.strategies[k] = self.strategies.get(k, 0) + v
        lab = res.get("labels", {})
        for k, src in (("long_stall_runs", "long_stall_runs"), ("long_stall_polls", "stall_spins")):
            if src in lab:
                a = self.labels.setdefault(k, [0, 0])
                a[0] += lab[src][0]
                a[1] += lab[src][1]
        self.event("long_stall_run")

    def to_json(self):
        return {"programs": self.programs, "distinct_programs": len(self.distinct_programs), "executions": self.executions,
                "nontrivial": self.nontrivial, "distinct_nontrivial": self.distinct_nontrivial, "inconclusive": self.inconclusive,
                "labels": self.labels, "strategies": self.strategies, "samples": self.samples, "known_hits": self.known_hits,
                "events": self.events, "points": self.points}


def merge_stats(dicts):
    out = {"programs": 0, "distinct_programs": 0, "executions": 0, "nontrivial": 0, "distinct_nontrivial": 0, "inconclusive": 0,
           "labels": {}, "strategies": {}, "samples": [], "known_hits": {}, "events": {}, "points": 0}
    for d in dicts:
        for k in ("programs", "distinct_programs", "executions", "nontrivial", "distinct_nontrivial", "inconclusive", "points"):
            out[k] += d.get(k, 0)
        for k, v in d.get("labels", {}).items():
            a = out["labels"].setdefault(k, [0, 0])
            a[0] += v[0]
            a[1] += v[1]
        for k, v in d.get("strategies", {}).items():
            out["strategies"][k] = out["strategies"].get(k, 0) + v
        for k, v in d.get("events", {}).items():
            out["events"][k] = out["events"].get(k, 0) + v
        for k, v in d.get("known_hits", {}).items():
            out["known_hits"][k] = out["known_hits"].get(k, 0) + v
        if len(out["samples"]) < 5:
            out["samples"].extend(d.get("samples", [])[: 5 - len(out["samples"])])
    return out


def run_runner(binary, case_text, workdir, args, timeout=600):
    os.makedirs(workdir, exist_ok=True)
    path = os.path.join(workdir, "case.txt")
    with open(path, "w") as f:
        f.write(case_text)
    cmd = [os.path.join(BUILD, binary), path] + [str(a) for a in args]
    try:
        p = subprocess.run(cmd, stdout=subprocess.PIPE, stderr=subprocess.PIPE, timeout=timeout)
    except subprocess.TimeoutExpired:
        return {"executions": 0, "inconclusive": 1, "violation": None, "runner_timeout": True}
    out = p.stdout.decode(errors="replace").strip().split("\n")
    for line in reversed(out):
        if line.startswith("{"):
            try:
                res = json.loads(line)
            except Exception:
                continue
            v = res.get("violation")
            if v and "pc 0x" in v.get("detail", ""):
                v["detail"] = resolve_pcs(binary, v["detail"])
            tol = res.get("tolerated_freed_reads") or {}
            # reads let through inside a known-finding bracket: one pseudo violation per distinct site, judged by the caller
            tol["sites"] = [{"kind": "use_after_reclaim", "detail": resolve_pcs(binary, "read of 8 bytes (let through inside a known-finding bracket), pc %s" % pc)}
                            for pc in tol.get("pcs", [])]
            res["tolerated_freed_reads"] = tol
            return res
    raise RuntimeError("runner produced no result: rc=%s stdout=%r stderr=%r" % (p.returncode, p.stdout[-500:], p.stderr[-500:]))


_pc_cache = {}


def resolve_pcs(binary, text):
    """replace 'pc 0x...' by 'pc 0x... = function at file:line' using addr2line (non-PIE binary)"""
    def sub(m):
        pc = m.group(1)
        key = (binary, pc)
        if key not in _pc_cache:
            try:
                out = subprocess.run(["addr2line", "-f", "-i", "-e", os.path.join(BUILD, binary), pc], stdout=subprocess.PIPE, timeout=20).stdout.decode().split("\n")
                parts = []
                for i in range(0, len(out) - 1, 2):
                    parts.append("%s at %s" % (out[i], os.path.basename(out[i + 1].split(" ")[0])))
                _pc_cache[key] = " <- ".join(parts[:3])
            except Exception:
                _pc_cache[key] = "?"
        return "pc %s = %s" % (pc, _pc_cache[key])
    return re.sub(r"pc (0x[0-9a-f]+)(?! =)", sub, text)


def load_known(prop):
    path = os.path.join(VERIF, "known_findings.json")
    if not os.path.exists(path):
        return []
    with open(path) as f:
        data = json.load(f)
    return [e for e in data.get("findings", []) if e.get("property") == prop and e.get("status", "open") == "open"]


def match_known(known, case, violation):
    """A known finding matches when harness, kind regex, detail regex and the
    optional program predicate all match."""
    for e in known:
        sig = e.get("signature", {})
        if sig.get("harness") and sig["harness"] != case.get("harness"):
            continue
        if sig.get("kind") and not re.search(sig["kind"], violation.get("kind", "")):
            continue
        if sig.get("detail") and not re.search(sig["detail"], violation.get("detail", "")):
            continue
        ok = True
        for k, v in sig.get("cfg", {}).items():
            if case.get("cfg", {}).get(k) != v:
                ok = False
        for name in sig.get("requires_ops", []):
            if not any(o[0] == name for ops in case["fibers"] for o in ops):
                ok = False
        if ok:
            return e
    return None
