#!/bin/bash
# Build the verification binaries from /repo's CURRENT working tree.
# usage: build.sh <target> [outdir]     targets: rt | ds | ctx | all
set -e
REPO=${VERIF_REPO:-/repo}
V=$(cd "$(dirname "$0")" && pwd)
T=${1:-all}
OUT=${2:-${VERIF_BUILD:-$V/build}}
mkdir -p "$OUT"
CC=clang
INSTR="-std=gnu11 -O1 -g -fsanitize=thread -femulated-tls -mllvm -tsan-instrument-func-entry-exit=0 -mllvm -tsan-instrument-read-before-write=1"
DEFS="-DLIBFIBER_VERIF -DFIBER_FAST_SWITCHING -DFIBER_STACK_MALLOC -D_GNU_SOURCE"
INC="-I$REPO/include -I$V/engine -I$V/harness"
WARN="-Wno-unused-command-line-argument -Wno-deprecated-non-prototype -Wno-unknown-warning-option"
LIBSRC="fiber_context fiber_manager fiber_mutex fiber_semaphore fiber_spinlock fiber_cond fiber fiber_barrier fiber_io fiber_rwlock hazard_pointer work_stealing_deque work_queue fiber_scheduler_wsd fiber_event_native"

pids=()
run() { "$@" & pids+=($!); }
waitall() { for p in "${pids[@]}"; do wait $p || { echo "BUILD FAILED" >&2; exit 1; }; done; pids=(); }

build_engine() {
  run $CC -std=gnu11 -O2 -g -fno-builtin -fno-stack-protector -c $V/engine/vsched.c -o $OUT/vsched.o
}
build_lib() { # $1 = extra flags, $2 = suffix
  mkdir -p $OUT/lib$2
  for s in $LIBSRC; do
    run $CC $INSTR $DEFS $1 $INC $WARN -c $REPO/src/$s.c -o $OUT/lib$2/$s.o
  done
}
case $T in
rt|all)
  build_engine
  build_lib "" ""
  for f in $V/harness/rt_ops.c $V/harness/rt_table.c $V/harness/rt_h_*.c $V/harness/ds_*.c; do
    run $CC $INSTR $DEFS $INC $WARN -c $f -o $OUT/$(basename $f .c).o
  done
  run $CC -std=gnu11 -O1 -g -fno-builtin $DEFS $INC $WARN -c $V/harness/rt_core.c -o $OUT/rt_core.o
  run $CC -std=gnu11 -O2 -g -fno-builtin $INC $WARN -c $V/engine/lin.c -o $OUT/lin.o
  waitall
  $CC -g -no-pie -o $OUT/runner_rt $OUT/rt_core.o $OUT/rt_ops.o $OUT/rt_table.o $OUT/rt_h_*.o $OUT/ds_*.o $OUT/lin.o $OUT/lib/*.o $OUT/vsched.o -ldl -lm
  ;;&
esac
case $T in
fuzz|all)
  # libFuzzer front end for the thread-level structures: same objects plus coverage instrumentation
  FZ=$OUT/fz; mkdir -p $FZ/lib
  run $CC -std=gnu11 -O2 -g -fno-builtin -fno-stack-protector -c $V/engine/vsched.c -o $FZ/vsched.o
  run $CC -std=gnu11 -O2 -g -fno-builtin $INC $WARN -c $V/engine/lin.c -o $FZ/lin.o
  for s in $LIBSRC; do
    run $CC $INSTR -fsanitize=fuzzer-no-link -fno-sanitize-coverage=stack-depth $DEFS $INC $WARN -c $REPO/src/$s.c -o $FZ/lib/$s.o
  done
  for f in $V/harness/rt_ops.c $V/harness/rt_table.c $V/harness/rt_h_*.c $V/harness/ds_*.c $V/harness/fuzz_ds.c; do
    run $CC $INSTR -fsanitize=fuzzer-no-link -fno-sanitize-coverage=stack-depth $DEFS $INC $WARN -c $f -o $FZ/$(basename $f .c).o
  done
  run $CC -std=gnu11 -O1 -g -fno-builtin -DRT_NO_MAIN $DEFS $INC $WARN -c $V/harness/rt_core.c -o $FZ/rt_core.o
  waitall
  clang -g -no-pie -fsanitize=fuzzer -o $OUT/fuzz_ds $FZ/rt_core.o $FZ/rt_ops.o $FZ/rt_table.o $FZ/rt_h_*.o $FZ/ds_*.o $FZ/fuzz_ds.o $FZ/lin.o $FZ/lib/*.o $FZ/vsched.o -ldl -lm
  ;;&
esac
case $T in
ctx|all)
  # C19: fiber_context.c alone, six variants, gcc (split stacks need it)
  for strat in split mmap malloc; do
    for fast in 1 0; do
      S=$(echo $strat | tr a-z A-Z)
      FL="-O1 -g -fno-stack-protector -DFIBER_STACK_$S -I$REPO/include -Wno-deprecated-declarations"
      [ $strat = split ] && FL="$FL -fsplit-stack -Wl,--wrap=__splitstack_releasecontext"
      [ $fast = 1 ] && FL="$FL -DFIBER_FAST_SWITCHING"
      run gcc $FL $REPO/src/fiber_context.c $V/harness/ctx_runner.c -o $OUT/ctx_${strat}_$([ $fast = 1 ] && echo asm || echo ucontext) -lpthread -no-pie -Wl,--wrap=free -Wl,--wrap=munmap -Wl,--wrap=mmap
    done
  done
  waitall
  ;;&
esac
echo "build ok: $T"
