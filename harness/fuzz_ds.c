// libFuzzer front end for the thread-level structures (C02a, C13-C17, C20a).
// One input = one (case, schedule): bytes are decoded into a harness choice, its configuration, per-thread
// operation lists and a schedule (strategy, PRNG seed, TSO flag, PCT/stall parameters); the case runs IN PROCESS
// under vsched with the same oracles as the Hypothesis front end.  On a violation the decoded case and the
// decision list are written as a replay file for the deterministic runner before trapping.
#include <stdint.h>
#include <stdio.h>
#include <stdlib.h>
#include <string.h>
#include <unistd.h>

#include "rt.h"

extern void ds_reset(void);
extern void rt_set_harness(const char* name);
extern const harness_t* rt_harness(void);

typedef struct rd {
  const uint8_t* p;
  size_t n;
} rd_t;
static unsigned u8(rd_t* r) {
  if (!r->n) return 0;
  r->n--;
  return *r->p++;
}
static unsigned rng(rd_t* r, unsigned lo, unsigned hi) { return lo + u8(r) % (hi - lo + 1); }

static void add_op(int t, const char* name, int a, int b, int c) {
  if (g_case.n_ops[t] >= MAX_OPS) return;
  op_t* o = &g_case.ops[t][g_case.n_ops[t]++];
  memset(o, 0, sizeof *o);
  strncpy(o->name, name, 15);
  o->a = a;
  o->b = b;
  o->c = c;
}
static void add_cfg(const char* k, long v) {
  strncpy(g_case.cfg_key[g_case.n_cfg], k, 23);
  g_case.cfg_val[g_case.n_cfg++] = v;
}

static const char* HNAMES[] = {"deque", "mpmc", "queue", "ring", "workq", "dwcas", "hazard"};
static int forced_harness = -1;

static void decode_case(rd_t* r) {
  memset(&g_case, 0, sizeof g_case);
  int h = forced_harness >= 0 ? forced_harness : (int)(u8(r) % 7);
  strcpy(g_case.harness, HNAMES[h]);
  g_case.threads = 1;
  int nth = (int)rng(r, 2, 4);
  switch (h) {
    case 0: {  // deque: thread 0 owner
      g_case.n_fibers = nth;
      int n = (int)rng(r, 1, 8);
      static const int bursts[] = {1, 1, 2, 3, 8, 40, 130, 257, 300};
      for (int i = 0; i < n; i++) {
        add_op(0, "push", bursts[u8(r) % 9], 0, 0);
        add_op(0, "pop", (int)rng(r, 0, 5), 0, 0);
      }
      for (int t = 1; t < nth; t++) add_op(t, "steal", (int)rng(r, 1, 30), (int)rng(r, 0, 2), 0);
      break;
    }
    case 1: {  // mpmc fifo
      g_case.n_fibers = nth;
      add_cfg("recycle", u8(r) & 1);
      add_cfg("lazy_records", u8(r) & 1);
      add_cfg("far", (u8(r) & 3) == 0);
      for (int t = 0; t < nth; t++) {
        int n = (int)rng(r, 1, 4);
        for (int i = 0; i < n; i++) add_op(t, (u8(r) & 1) ? "push" : "pop", (int)rng(r, 1, 12), (int)rng(r, 0, 1), 0);
      }
      break;
    }
    case 2: {  // mpsc / spsc / mpscr: last thread consumes
      int kind = (int)(u8(r) % 3);
      if (kind == 1) nth = 2;
      g_case.n_fibers = nth;
      add_cfg("qkind", kind);
      add_cfg("lanes", nth - 1);
      for (int t = 0; t < nth - 1; t++) {
        int n = (int)rng(r, 1, 3);
        for (int i = 0; i < n; i++) add_op(t, "push", (int)rng(r, 1, 6), (int)rng(r, 0, 2), t);
      }
      int n = (int)rng(r, 1, 5);
      static const char* cops[] = {"pop", "pop", "poppush", "peek"};
      for (int i = 0; i < n; i++) add_op(nth - 1, kind == 0 ? cops[u8(r) & 3] : "pop", (int)rng(r, 1, 6), (int)rng(r, 0, 2), 0);
      break;
    }
    case 3: {  // ring buffer
      g_case.n_fibers = nth;
      add_cfg("cap_log2", (long)rng(r, 1, 3));
      for (int t = 0; t < nth; t++) add_op(t, (u8(r) & 1) ? "tpush" : "tpop", (int)rng(r, 2, 10), (int)rng(r, 0, 2), 0);
      break;
    }
    case 4: {  // work queue
      g_case.n_fibers = nth;
      for (int t = 0; t < nth; t++) add_op(t, "wpush", (int)rng(r, 1, 10), (int)rng(r, 0, 3), (int)rng(r, 0, 3));
      break;
    }
    case 5: {  // lifo / dist fifo / stack
      int kind = (int)(u8(r) % 3);
      g_case.n_fibers = nth;
      add_cfg("dkind", kind);
      for (int t = 0; t < nth; t++) {
        int n = (int)rng(r, 1, 4);
        for (int i = 0; i < n; i++) {
          if (kind == 0) {
            static const char* lops[] = {"push", "pop", "poppush", "poppush"};
            add_op(t, lops[u8(r) & 3], (int)rng(r, 1, 4), (int)rng(r, 0, 1), 0);
          } else if (kind == 1) {
            add_op(t, t == 0 ? "push" : "pop", (int)rng(r, 1, 6), (int)rng(r, 0, 2), 0);
          } else {
            if (u8(r) & 1) add_op(t, "push", (int)rng(r, 1, 4), 0, 0);
            else add_op(t, "flush", (int)(u8(r) & 1), 0, 0);
          }
        }
      }
      break;
    }
    default: {  // hazard pointers
      g_case.n_fibers = nth;
      int k = (int)rng(r, 1, 4);
      add_cfg("slots", k);
      int far = u8(r) & 1;
      for (int t = 0; t < nth; t++) {
        if (t > 0 && (u8(r) & 1)) add_op(t, "reg", 0, 0, 0);
        int n = (int)rng(r, 2, 16);
        for (int i = 0; i < n; i++) {
          switch (u8(r) % 8) {
            case 0: case 1: add_op(t, "protect", (int)rng(r, 0, 3), (int)rng(r, 0, (unsigned)k - 1), 0); break;
            case 2: add_op(t, "deref", (int)rng(r, 0, (unsigned)k - 1), 0, 0); break;
            case 3: add_op(t, "release", (int)rng(r, 0, (unsigned)k - 1), 0, 0); break;
            case 7: add_op(t, "scan", 0, 0, 0); break;
            default: add_op(t, "replace", (int)rng(r, 0, 3), (int)rng(r, 0, 3) | ((far && (u8(r) & 1)) ? 128 : 0), 0); break;
          }
        }
      }
      break;
    }
  }
  for (int t = 0; t < g_case.n_fibers; t++)
    if (!g_case.n_ops[t]) add_op(t, "nop", 0, 0, 0);
}

static void decode_sched(rd_t* r, vs_config_t* c) {
  memset(c, 0, sizeof *c);
  uint64_t seed = 0;
  for (int i = 0; i < 4; i++) seed = (seed << 8) | u8(r);
  c->seed = seed + 1;
  c->soft_budget = 200000;
  c->hard_budget = 1000000;
  c->tso = u8(r) & 1;
  switch (u8(r) % 5) {
    case 0:
      c->strategy = VS_STRAT_FAIR;
      break;
    case 1:
      c->strategy = VS_STRAT_RANDOM;
      c->p_log2 = 1 + (int)(u8(r) % 7);
      break;
    case 2:
      c->strategy = VS_STRAT_PCT;
      c->pct_depth = 1 + (int)(u8(r) % 4);
      c->pct_k = 100 + 60ull * u8(r);
      break;
    case 3:
      c->strategy = VS_STRAT_PCT;
      c->targeted = 1;
      c->pct_depth = 1 + (int)(u8(r) % 3);
      c->pct_k = 20 + 8ull * u8(r);
      break;
    default:
      c->strategy = VS_STRAT_RANDOM;
      c->p_log2 = 2 + (int)(u8(r) % 5);
      c->stall_thread = 2 + (int)(u8(r) % 3);  // worker threads are vthreads 1..
      c->stall_any = 1;
      c->stall_at = 1 + 2ull * u8(r);
      c->stall_len = 3000ull << (2 * (u8(r) % 3));
      break;
  }
}

static void entry_tramp(void* a) {
  (void)a;
  rt_harness()->entry(0);
}

static void render_case(FILE* f) {
  fprintf(f, "harness %s\\nthreads 1\\n", g_case.harness);
  for (int i = 0; i < g_case.n_cfg; i++) fprintf(f, "cfg %s %ld\\n", g_case.cfg_key[i], g_case.cfg_val[i]);
  for (int t = 0; t < g_case.n_fibers; t++) {
    fprintf(f, "fiber");
    for (int k = 0; k < g_case.n_ops[t]; k++) fprintf(f, " %s %d %d %d", g_case.ops[t][k].name, g_case.ops[t][k].a, g_case.ops[t][k].b, g_case.ops[t][k].c);
    fprintf(f, "\\n");
  }
}

static vs_result_t fz_res;
static unsigned long n_exec, n_nontrivial;

int LLVMFuzzerInitialize(int* argc, char*** argv) {
  (void)argc;
  (void)argv;
  const char* h = getenv("FUZZ_HARNESS");
  if (h)
    for (int i = 0; i < 7; i++)
      if (!strcmp(h, HNAMES[i])) forced_harness = i;
  return 0;
}

int LLVMFuzzerTestOneInput(const uint8_t* data, size_t size) {
  if (size < 8) return 0;
  rd_t r = {data, size};
  vs_config_t cfg;
  decode_sched(&r, &cfg);
  decode_case(&r);
  rt_set_harness(g_case.harness);
  ds_reset();
  vs_res = &fz_res;
  int st = vs_run_inproc(&cfg, entry_tramp, 0);
  n_exec++;
  for (int i = 0; i < fz_res.n_labels; i++)
    if (!strcmp(fz_res.label_name[i], "nontrivial") && fz_res.label_val[i]) n_nontrivial++;
  const char* statf = getenv("FUZZ_STATS");
  if (statf && (n_exec % 2000) == 0) {
    FILE* f = fopen(statf, "w");
    if (f) {
      fprintf(f, "{\"executions\":%lu,\"nontrivial\":%lu}\n", n_exec, n_nontrivial);
      fclose(f);
    }
  }
  if (st == 2) {
    const char* dir = getenv("FUZZ_REPLAY_DIR");
    char path[512];
    snprintf(path, sizeof path, "%s/fuzz-%s-%08lx.json", dir ? dir : ".", g_case.harness, (unsigned long)(fz_res.trace_hash & 0xffffffff));
    FILE* f = fopen(path, "w");
    if (f) {
      fprintf(f, "{\"binary\":\"runner_rt\",\"front_end\":\"libFuzzer\",\"case_text\":\"");
      render_case(f);
      fprintf(f, "\",\"violation\":{\"kind\":\"%s\",\"detail\":\"", fz_res.kind);
      for (const char* p = fz_res.detail; *p; p++) fputc(*p == '"' || *p == '\\' ? '\'' : *p, f);
      fprintf(f, "\",\"seed\":%llu,\"tso\":%d,\"strategy\":\"fuzz\",\"points\":%llu,\"decisions\":[", (unsigned long long)cfg.seed, cfg.tso,
              (unsigned long long)fz_res.points);
      for (uint32_t i = 0; i < fz_res.n_decisions; i++) fprintf(f, "%s[%u,%u]", i ? "," : "", fz_res.dec_point[i], fz_res.dec_tid[i]);
      fprintf(f, "]}}\n");
      fclose(f);
    }
    fprintf(stderr, "FUZZ-VIOLATION harness=%s kind=%s detail=%s replay=%s\n", g_case.harness, fz_res.kind, fz_res.detail, path);
    if (statf) {
      FILE* sf = fopen(statf, "w");
      if (sf) {
        fprintf(sf, "{\"executions\":%lu,\"nontrivial\":%lu}\n", n_exec, n_nontrivial);
        fclose(sf);
      }
    }
    __builtin_trap();
  }
  return 0;
}
