// vsched: a scheduler the harness owns.  Kernel threads of the code under test
// become virtual threads on ONE OS thread; every instrumented memory access is
// a scheduling point.  See DESIGN.md section 2.
#ifndef VSCHED_H
#define VSCHED_H
#include <stddef.h>
#include <stdint.h>

#ifdef __cplusplus
extern "C" {
#endif

#define VS_MAX_THREADS 8
#define VS_MAX_DECISIONS 16384
#define VS_MAX_LABELS 48

enum { VS_STRAT_RANDOM = 0, VS_STRAT_PCT = 1, VS_STRAT_REPLAY = 2, VS_STRAT_FAIR = 3 };

typedef struct vs_config {
  uint64_t seed;
  int strategy;
  int p_log2;         // random walk: switch with probability 2^-p_log2
  int pct_depth;      // PCT: number of priority change points
  uint64_t pct_k;     // PCT: estimated run length in points
  int tso;            // 1 = x86-TSO store buffers
  uint64_t soft_budget;  // after this many points fall back to fair round robin
  uint64_t hard_budget;  // after this many points: livelock verdict
  // targeted delay: change points are drawn from accesses to [watch_lo,watch_hi)
  int targeted;
  // stall strategy: hold thread (stall_thread-1) at its stall_at-th access to the watched object for up to stall_len points
  int stall_thread;
  int stall_any;  // 1: stall_at counts all scheduling points of that thread, 0: only its accesses to the watched object
  uint64_t stall_at;
  int stall_thread2;   // optional second thread held at its stall_at2-th access (three- and four-party windows)
  uint64_t stall_at2;
  uint64_t stall_len;
  uint64_t stall_spins;  // if set: the stall also ends once the running threads made this many cpu_relax() calls during it
  // replay
  int n_replay;
  const uint32_t* replay_points;
  const uint8_t* replay_tids;
} vs_config_t;

// result block; lives in MAP_SHARED memory owned by the parent so that it
// survives abort()/SIGSEGV in the child.
typedef struct vs_result {
  volatile int status;  // 0 = running, 1 = finished ok, 2 = violation, 3 = inconclusive
  char kind[96];        // violation kind (Appendix B)
  char detail[400];
  uint64_t points, switches, involuntary;
  uint32_t n_decisions;
  uint32_t dec_point[VS_MAX_DECISIONS];
  uint8_t dec_tid[VS_MAX_DECISIONS];
  int decisions_overflow;
  // label counters (non-triviality evidence), name/value
  int n_labels;
  char label_name[VS_MAX_LABELS][32];
  uint64_t label_val[VS_MAX_LABELS];
  uint64_t trace_hash;  // hash of the decision list (distinctness)
  // 8-byte reads of freed heap memory that were let through inside a vs_tolerate_freed_read8 bracket (judged afterwards
  // against the committed known-findings file by the front end)
  uint64_t tolerated_count;
  uint64_t tolerated_pc[8];
  int n_tolerated_pc;
  uint64_t tso_buffered, tso_hidden_reads;
  uint64_t watch_hits_t[VS_MAX_THREADS];
  uint64_t points_t[VS_MAX_THREADS];
} vs_result_t;

extern vs_result_t* vs_res;  // set by the runner before vs_begin

void vs_begin(const vs_config_t* cfg);
void vs_end(void);
int vs_active(void);
int vs_self(void);  // current virtual thread index
uint64_t vs_points(void);

// create/join virtual threads directly (thread-level harnesses)
int vs_thread_create(void* (*fn)(void*), void* arg);
void vs_thread_join(int tid);

// labels
void vs_label_add(const char* name, uint64_t v);
void vs_label_max(const char* name, uint64_t v);

// verdicts: record into vs_res and _exit the child
void vs_violation(const char* kind, const char* fmt, ...) __attribute__((noreturn, format(printf, 2, 3)));
void vs_finish_ok(void) __attribute__((noreturn));
void vs_inconclusive(const char* why) __attribute__((noreturn));
// in-process mode (fuzz targets): instead of _exit, longjmp back to the caller of vs_run_inproc
typedef void (*vs_main_fn)(void*);
int vs_run_inproc(const vs_config_t* cfg, vs_main_fn fn, void* arg);  // returns status

// watch range for targeted delay / non-triviality
void vs_watch(const void* lo, size_t len);
// is the current operation inside a "watched op"? harness brackets operations
void vs_op_begin(void);
void vs_op_end(void);

// engine-private sections: no scheduling points inside
void vs_rt_enter(void);
void vs_rt_exit(void);
// full fence for the calling virtual thread (TSO mode): harness operation boundary
void vs_drain(void);

// progress / quiescence (runtime harnesses)
void vs_progress(void);
// the program under test completed an operation (used to tell "slow" from "stuck" at the step budget)
void vs_program_advanced(void);
typedef void (*vs_quiescence_fn)(void);
void vs_set_quiescence_cb(vs_quiescence_fn fn);
// virtual timer: number of ticks to deliver through the fake timerfd
void vs_timer_tick(uint64_t n);
int vs_timer_fd(void);
uint64_t vs_ticks_delivered(void);
uint64_t vs_ticks_read(void);

// stack regions (never store-buffered)
void vs_register_stack(const void* lo, size_t len);
// allocate from a second arena region 0x90000000 bytes above the first (addresses > 2^31 apart)
void* vs_alloc_far(size_t n);
// tolerate accesses to freed (never reused, still intact) memory: for harness classes where the CALLER keeps using a dead handle
void vs_heap_allow_freed(int on);
// number of spin-wait iterations (cpu_relax) the calling virtual thread has executed so far
uint64_t vs_spin_calls(void);
// non-zero in a long-stall run (a thread is held for up to 10^9 scheduling points): poll-count limits of the harnesses do not apply
int vs_long_stall_run(void);
// called when a virtual thread enters epoll_wait with a non-zero time-out (it is about to sleep in the kernel)
extern void (*vs_on_blocking_poll)(void);
// single-writer fields: the first virtual thread that writes [p, p+n) after this call owns it; a write by any other
// virtual thread is a violation (owner_only_write)
void vs_owner_only(const void* p, size_t n, const char* what);
// while on (per virtual thread): an 8-byte READ of freed heap memory is recorded (pc) and execution goes on
void vs_tolerate_freed_read8(int on);
void vs_install_crash_handlers(void);

// shadow heap
int vs_heap_is_live(const void* p);
int vs_heap_contains(const void* p);
// a real (blocking) libc sleep was reached
extern int vs_real_sleep_calls;
// hook that harnesses may set: called when a real sleep is reached
extern void (*vs_on_real_sleep)(const char* which);
// optional: harness-supplied description of where the program is (added to livelock reports)
extern const char* (*vs_describe_state)(void);
// optional: is the caller of epoll_wait the kernel thread's idle loop? (default: yes)
extern int (*vs_idle_context)(void);

// deterministic PRNG derived from the generated seed (harness may use it for
// data that is part of the generated case only)
uint64_t vs_rand(void);

#ifdef __cplusplus
}
#endif
#endif
