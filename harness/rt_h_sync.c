// C06 semaphore, C07 rwlock, C12 barrier, C18 spinlock harnesses
#include <string.h>

#include "fiber_barrier.h"
#include "fiber_manager.h"
#include "fiber_rwlock.h"
#include "fiber_semaphore.h"
#include "fiber_spinlock.h"
#include "rt.h"

extern void rt_work(int idx, int n);

// ------------------------------------------------------------------ semaphore
#define NS 3
static fiber_semaphore_t sem[NS];
static long sem_init_val[NS];
static long posts_begun[NS], posts_done[NS], acquired[NS];
static int sem_blocked_waits, sem_try_ok, sem_try_fail;

GHOST static void gs_post_begin(int s) { posts_begun[s]++; }
GHOST static void gs_post_done(int s) { posts_done[s]++; }
GHOST static void gs_acquired(int s, int idx, int via_try) {
  vs_rt_enter();
  acquired[s]++;
  if (acquired[s] > sem_init_val[s] + posts_begun[s])
    vs_violation(via_try ? "try_illegal_success" : "over_admission", "semaphore %d: fiber %d is admission %ld but initial %ld + posts begun %ld", s, idx,
                 acquired[s], sem_init_val[s], posts_begun[s]);
  vs_rt_exit();
}
GHOST static void g_inc(int* c) { (*c)++; }

static void sem_setup(void) {
  long n = cfg_get("nsem", 0);
  for (int i = 0; i < n && i < NS; i++) {
    char k[16] = "sem_init0";
    k[8] = (char)('0' + i);
    sem_init_val[i] = cfg_get(k, 0);
    RT_DIRTY(sem[i]);
    fiber_semaphore_init(&sem[i], (int)sem_init_val[i]);
    vs_watch(&sem[i], sizeof sem[i]);
  }
}

static void sem_body(int idx, int y, int w) {
  for (int i = 0; i < y; i++) fiber_yield();
  if (w) rt_work(idx, w);
}

// "semcrowd s n": n further (anonymous) fibers each take one unit of semaphore s; the caller posts n units one by one
static long sem_crowd;
static fiber_semaphore_t sem_scratch[MAX_FIBERS];
static int sem_cycles;
static void* sem_crowd_body(void* p) {
  int s = (int)(intptr_t)p;
  fiber_semaphore_wait(&sem[s]);
  gs_acquired(s, -1, 0);
  return 0;
}
static int sem_do_op(int idx, op_t* op) {
  int s = op->a % NS;
  if (!strcmp(op->name, "semcycle")) {
    // life cycle: a short-lived semaphore of this fiber's own is initialised, used without contention (b post/wait pairs)
    // and destroyed, while the long-lived ones are in use
    fiber_semaphore_t* t = &sem_scratch[idx % MAX_FIBERS];
    rt_dirty(t, sizeof *t);
    fiber_semaphore_init(t, op->c & 1);
    for (int i = 0; i < op->b; i++) {
      fiber_semaphore_post(t);
      fiber_semaphore_wait(t);
    }
    if (fiber_semaphore_getvalue(t) != (op->c & 1))
      vs_violation("value_mismatch", "short-lived semaphore of fiber %d: value %d after %d post/wait pairs from %d", idx, fiber_semaphore_getvalue(t), op->b, op->c & 1);
    fiber_semaphore_destroy(t);
    g_inc(&sem_cycles);
    return 1;
  }
  if (!strcmp(op->name, "semcrowd")) {
    for (int i = 0; i < op->b; i++) {
      fiber_t* f = fiber_create(8192, &sem_crowd_body, (void*)(intptr_t)s);
      if (!f) vs_violation("engine_limit", "fiber_create failed");
      fiber_detach(f);
    }
    sem_crowd += op->b;
    for (int i = 0; i < 2; i++) fiber_yield();   // let them run into the semaphore
    for (int i = 0; i < op->b; i++) {
      gs_post_begin(s);
      fiber_semaphore_post(&sem[s]);
      gs_post_done(s);
    }
    return 1;
  }
  if (!strcmp(op->name, "swait") || !strcmp(op->name, "swaitpost")) {
    int before = g_fiber_switches(idx);
    fiber_semaphore_wait(&sem[s]);
    if (g_fiber_switches(idx) != before) g_inc(&sem_blocked_waits);
    gs_acquired(s, idx, 0);
    if (op->name[5] == 'p') {
      sem_body(idx, op->b, op->c);
      gs_post_begin(s);
      fiber_semaphore_post(&sem[s]);
      gs_post_done(s);
    }
    return 1;
  }
  if (!strcmp(op->name, "spost")) {
    gs_post_begin(s);
    fiber_semaphore_post(&sem[s]);
    gs_post_done(s);
    return 1;
  }
  if (!strcmp(op->name, "strywait")) {
    g_nb_enter(idx);
    int r = fiber_semaphore_trywait(&sem[s]);
    g_nb_exit(idx);
    if (r == FIBER_SUCCESS) {
      g_inc(&sem_try_ok);
      gs_acquired(s, idx, 1);
      sem_body(idx, op->b, op->c);
      gs_post_begin(s);
      fiber_semaphore_post(&sem[s]);
      gs_post_done(s);
    } else {
      g_inc(&sem_try_fail);
    }
    return 1;
  }
  return 0;
}

GHOST static void sem_final(void) {
  vs_rt_enter();
  long n = cfg_get("nsem", 0);
  for (int i = 0; i < n && i < NS; i++) {
    long expect = sem_init_val[i] + posts_done[i] - acquired[i];
    long got = fiber_semaphore_getvalue(&sem[i]);
    if (got != expect)
      vs_violation("value_mismatch", "semaphore %d value %ld after activity ceased, expected initial %ld + posts %ld - acquired %ld = %ld", i, got,
                   sem_init_val[i], posts_done[i], acquired[i], expect);
  }
  vs_label_max("crowd", (uint64_t)sem_crowd);
  vs_label_add("sem_init_destroy_cycles", (uint64_t)sem_cycles);
  vs_label_add("sem_blocked_waits", sem_blocked_waits);
  vs_label_add("sem_try_ok", sem_try_ok);
  vs_label_add("sem_try_fail", sem_try_fail);
  if (n && sem_blocked_waits > 0) rt_nontrivial("sem");
  vs_rt_exit();
}
const harness_t h_sem = {"sem", sem_setup, sem_do_op, 0, sem_final, 0};

// ------------------------------------------------------------------ rwlock
#define NRW 2
static fiber_rwlock_t rwl[NRW];
static volatile long rw_cell[NRW];
static long rw_last[NRW];
static int rw_readers[NRW], rw_writer[NRW];
static int rw_blocked, rw_try_ok, rw_try_fail, rw_shared_max;

GHOST static void grw_acq(int l, int idx, int write, int via_try) {
  vs_rt_enter();
  if (write) {
    if (rw_writer[l] != -1 || rw_readers[l] != 0)
      vs_violation(via_try ? "try_illegal_success" : "mutex_overlap", "rwlock %d: fiber %d got the write lock while writer=%d readers=%d", l, idx,
                   rw_writer[l], rw_readers[l]);
    rw_writer[l] = idx;
  } else {
    if (rw_writer[l] != -1)
      vs_violation(via_try ? "try_illegal_success" : "mutex_overlap", "rwlock %d: fiber %d got a read lock while fiber %d holds the write lock", l, idx,
                   rw_writer[l]);
    rw_readers[l]++;
    if (rw_readers[l] > rw_shared_max) rw_shared_max = rw_readers[l];
  }
  vs_rt_exit();
}
GHOST static void grw_rel(int l, int idx, int write) {
  vs_rt_enter();
  if (write) {
    if (rw_writer[l] != idx) vs_violation("mutex_overlap", "rwlock %d: bad write release by %d", l, idx);
    rw_writer[l] = -1;
  } else {
    rw_readers[l]--;
  }
  vs_rt_exit();
}
GHOST static void grw_check(int l, int idx, long v, int write) {
  vs_rt_enter();
  if (v != rw_last[l]) vs_violation("value_mismatch", "rwlock %d: fiber %d read %ld, last writer left %ld", l, idx, v, rw_last[l]);
  if (write) rw_last[l] = v + 1;
  vs_rt_exit();
}

static void rw_setup(void) {
  long n = cfg_get("nrw", 0);
  for (int i = 0; i < n && i < NRW; i++) {
    RT_DIRTY(rwl[i]);
    fiber_rwlock_init(&rwl[i]);
    rw_writer[i] = -1;
    vs_watch(&rwl[i], sizeof rwl[i]);
  }
}
static void rw_section(int idx, int l, int write, int y, int w) {
  long v = rw_cell[l];
  grw_check(l, idx, v, write);
  for (int i = 0; i < y; i++) fiber_yield();
  if (w) rt_work(idx, w);
  if (write) rw_cell[l] = v + 1;
}
static long rw_holds_max, rw_crowd;
// "rdcrowd l n": the caller takes the write lock, starts n further (anonymous) fibers that each take a read lock, lets them
// queue behind it, and unlocks: one hand-off admits all of them
static void rw_section(int idx, int l, int write, int y, int w);
static void* rw_crowd_body(void* p) {
  int l = (int)(intptr_t)p;
  fiber_rwlock_rdlock(&rwl[l]);
  grw_acq(l, -1, 0, 0);
  rw_section(0, l, 0, 0, 0);
  grw_rel(l, -1, 0);
  fiber_rwlock_rdunlock(&rwl[l]);
  return 0;
}
static void* rw_crowd_writer(void* p) {
  int l = (int)(intptr_t)p;
  fiber_rwlock_wrlock(&rwl[l]);
  grw_acq(l, -2, 1, 0);
  rw_section(0, l, 1, 1, 0);
  grw_rel(l, -2, 1);
  fiber_rwlock_wrunlock(&rwl[l]);
  return 0;
}
static int rw_do_op(int idx, op_t* op) {
  int l = op->a % NRW;
  int write = -1, try = 0;
  if (!strcmp(op->name, "wrcrowd")) {
    // the caller holds a read lock; one (anonymous) writer queues behind it, then b readers queue behind that writer; the caller's
    // unlock hands the lock to the writer while all those readers are waiting, the writer's unlock admits them
    fiber_rwlock_rdlock(&rwl[l]);
    grw_acq(l, idx, 0, 0);
    fiber_t* w = fiber_create(8192, &rw_crowd_writer, (void*)(intptr_t)l);
    if (!w) vs_violation("engine_limit", "fiber_create failed");
    fiber_detach(w);
    for (int i = 0; i < 2; i++) fiber_yield();   // the writer runs into the read-held lock
    for (int i = 0; i < op->b; i++) {
      fiber_t* f = fiber_create(8192, &rw_crowd_body, (void*)(intptr_t)l);
      if (!f) vs_violation("engine_limit", "fiber_create failed");
      fiber_detach(f);
    }
    rw_crowd += op->b;
    for (int i = 0; i < 2; i++) fiber_yield();
    grw_rel(l, idx, 0);
    fiber_rwlock_rdunlock(&rwl[l]);
    return 1;
  }
  if (!strcmp(op->name, "rdcrowd")) {
    fiber_rwlock_wrlock(&rwl[l]);
    grw_acq(l, idx, 1, 0);
    for (int i = 0; i < op->b; i++) {
      fiber_t* f = fiber_create(8192, &rw_crowd_body, (void*)(intptr_t)l);
      if (!f) vs_violation("engine_limit", "fiber_create failed");
      fiber_detach(f);
    }
    rw_crowd += op->b;
    rw_section(idx, l, 1, 2, 0);
    grw_rel(l, idx, 1);
    fiber_rwlock_wrunlock(&rwl[l]);
    return 1;
  }
  if (!strcmp(op->name, "wrloop")) {
    // b write sections in a row, each with a yield inside (so the other writers queue up behind it)
    for (int i = 0; i < op->b; i++) {
      int before = g_fiber_switches(idx);
      fiber_rwlock_wrlock(&rwl[l]);
      if (g_fiber_switches(idx) != before) g_inc(&rw_blocked);
      grw_acq(l, idx, 1, 0);
      rw_section(idx, l, 1, 1, 0);
      grw_rel(l, idx, 1);
      fiber_rwlock_wrunlock(&rwl[l]);
    }
    return 1;
  }
  if (!strcmp(op->name, "rdhold")) {
    // any number of simultaneous read holds: up to b read locks taken by this fiber (tryrdlock: a reader that finds a writer
    // waiting would queue behind it), a trywrlock against them, a yield so that the others meet the held lock, then all released
    long got = 0;
    for (long i = 0; i < op->b; i++) {
      if (fiber_rwlock_tryrdlock(&rwl[l]) != FIBER_SUCCESS) break;
      grw_acq(l, idx, 0, 1);
      got++;
    }
    if (got > rw_holds_max) rw_holds_max = got;
    g_nb_enter(idx);
    int r = fiber_rwlock_trywrlock(&rwl[l]);
    g_nb_exit(idx);
    if (r == FIBER_SUCCESS) {
      grw_acq(l, idx, 1, 1);
      rw_section(idx, l, 1, 0, 0);
      grw_rel(l, idx, 1);
      fiber_rwlock_wrunlock(&rwl[l]);
    }
    fiber_yield();
    for (long i = 0; i < got; i++) {
      grw_rel(l, idx, 0);
      fiber_rwlock_rdunlock(&rwl[l]);
    }
    return 1;
  }
  if (!strcmp(op->name, "rd")) write = 0;
  else if (!strcmp(op->name, "wr")) write = 1;
  else if (!strcmp(op->name, "tryrd")) write = 0, try = 1;
  else if (!strcmp(op->name, "trywr")) write = 1, try = 1;
  else return 0;
  if (try) {
    g_nb_enter(idx);
    int r = write ? fiber_rwlock_trywrlock(&rwl[l]) : fiber_rwlock_tryrdlock(&rwl[l]);
    g_nb_exit(idx);
    if (r != FIBER_SUCCESS) {
      g_inc(&rw_try_fail);
      return 1;
    }
    g_inc(&rw_try_ok);
  } else {
    int before = g_fiber_switches(idx);
    if (write) fiber_rwlock_wrlock(&rwl[l]);
    else fiber_rwlock_rdlock(&rwl[l]);
    if (g_fiber_switches(idx) != before) g_inc(&rw_blocked);
  }
  grw_acq(l, idx, write, try);
  rw_section(idx, l, write, op->b, op->c);
  grw_rel(l, idx, write);
  if (write) fiber_rwlock_wrunlock(&rwl[l]);
  else fiber_rwlock_rdunlock(&rwl[l]);
  return 1;
}
GHOST static void rw_final(void) {
  vs_rt_enter();
  long n = cfg_get("nrw", 0);
  for (int i = 0; i < n && i < NRW; i++)
    if (rwl[i].state.blob != 0)
      vs_violation("value_mismatch", "rwlock %d state is 0x%llx after all fibers finished (expected 0)", i, (unsigned long long)rwl[i].state.blob);
  vs_label_add("rw_blocked", rw_blocked);
  vs_label_add("rw_try_ok", rw_try_ok);
  vs_label_add("rw_try_fail", rw_try_fail);
  vs_label_max("rw_shared_max", rw_shared_max);
  vs_label_max("crowd", (uint64_t)(rw_holds_max > rw_crowd ? rw_holds_max : rw_crowd));
  if (n && rw_blocked > 0) rt_nontrivial("rwlock");
  vs_rt_exit();
}
const harness_t h_rwlock = {"rwlock", rw_setup, rw_do_op, 0, rw_final, 0};

// ------------------------------------------------------------------ barrier
#define NB 2
#define MAXROUNDS 16
static fiber_barrier_t bar[NB];
static int bar_count[NB];
static int bar_arrivals[NB][MAXROUNDS], bar_serial[NB][MAXROUNDS], bar_returns[NB][MAXROUNDS];
static int bar_my_round[NB][MAX_FIBERS];
static int bar_blocked;

GHOST static int gb_arrive(int b, int idx) {
  int k = bar_my_round[b][idx]++;
  if (k < MAXROUNDS) bar_arrivals[b][k]++;
  return k;
}
GHOST static void gb_return(int b, int idx, int k, int ret) {
  vs_rt_enter();
  if (k < MAXROUNDS) {
    bar_returns[b][k]++;
    if (bar_arrivals[b][k] != bar_count[b])
      vs_violation("early_release", "barrier %d: fiber %d returned from its wait #%d when only %d of %d fibers had entered that round (round %d has %d arrivals)",
                   b, idx, k + 1, bar_arrivals[b][k], bar_count[b], k + 2, k + 1 < MAXROUNDS ? bar_arrivals[b][k + 1] : -1);
    if (ret == FIBER_BARRIER_SERIAL_FIBER) {
      bar_serial[b][k]++;
      if (bar_serial[b][k] > 1) vs_violation("serial_count", "barrier %d round %d: more than one serial fiber", b, k + 1);
    } else if (ret != 0) {
      vs_violation("serial_count", "barrier %d: unexpected return value %d", b, ret);
    }
  }
  vs_rt_exit();
}
static void bar_setup(void) {
  long n = cfg_get("nbar", 0);
  for (int i = 0; i < n && i < NB; i++) {
    char k[16] = "bar_count0";
    k[9] = (char)('0' + i);
    bar_count[i] = (int)cfg_get(k, 1);
    RT_DIRTY(bar[i]);
    fiber_barrier_init(&bar[i], (uint32_t)bar_count[i]);
    // as if bar_start waits had already happened (a whole number of rounds): the state of an idle barrier is its counter
    uint64_t start = (uint64_t)cfg_get("bar_start", 0);
    start -= start % (uint64_t)bar_count[i];
    if (start) bar[i].counter += start;
    vs_watch(&bar[i], sizeof bar[i]);
  }
}
// "bcrowd n r": n further (anonymous) participants of barrier 0, each waiting r times
GHOST static int gb_arrive_anon(int* round) {
  int k = (*round)++;
  if (k < MAXROUNDS) bar_arrivals[0][k]++;
  return k;
}
static long bar_crowd;
static void* bar_crowd_body(void* p) {
  int rounds = (int)(intptr_t)p, mine = 0;
  for (int i = 0; i < rounds; i++) {
    int k = gb_arrive_anon(&mine);
    int r = fiber_barrier_wait(&bar[0]);
    gb_return(0, -1, k, r);
  }
  return 0;
}
static int bar_do_op(int idx, op_t* op) {
  if (!strcmp(op->name, "bcrowd")) {
    for (int i = 0; i < op->a; i++) {
      fiber_t* f = fiber_create(8192, &bar_crowd_body, (void*)(intptr_t)op->b);
      if (!f) vs_violation("engine_limit", "fiber_create failed");
      fiber_detach(f);
    }
    bar_crowd += op->a;
    return 1;
  }
  if (strcmp(op->name, "bwait")) return 0;
  int b = op->a % NB;
  int k = gb_arrive(b, idx);
  int before = g_fiber_switches(idx);
  int r = fiber_barrier_wait(&bar[b]);
  if (g_fiber_switches(idx) != before) g_inc(&bar_blocked);
  gb_return(b, idx, k, r);
  return 1;
}
GHOST static void bar_final(void) {
  vs_rt_enter();
  long n = cfg_get("nbar", 0);
  int rounds = 0;
  for (int b = 0; b < n && b < NB; b++)
    for (int k = 0; k < MAXROUNDS; k++)
      if (bar_returns[b][k]) {
        rounds++;
        if (bar_returns[b][k] == bar_count[b] && bar_serial[b][k] != 1)
          vs_violation("serial_count", "barrier %d round %d: %d serial fibers (expected exactly 1)", b, k + 1, bar_serial[b][k]);
      }
  vs_label_max("crowd", (uint64_t)bar_crowd);
  vs_label_add("barrier_rounds", rounds);
  vs_label_add("barrier_blocked", bar_blocked);
  if (n && rounds >= 2 && bar_blocked > 0) rt_nontrivial("barrier");
  vs_rt_exit();
}
const harness_t h_barrier = {"barrier", bar_setup, bar_do_op, 0, bar_final, 0};

// ------------------------------------------------------------------ spinlock
#define NSP 2
static fiber_spinlock_t spl[NSP];
static volatile long sp_cell[NSP];
static int sp_holder[NSP];
static uint32_t sp_next_ticket[NSP];
static long sp_acq[NSP];
static int sp_try_ok, sp_try_fail, sp_contended;

GHOST static void gsp_acq(int l, int idx, int via_try) {
  vs_rt_enter();
  if (sp_holder[l] != -1)
    vs_violation(via_try ? "try_illegal_success" : "mutex_overlap", "spinlock %d: fiber %d acquired it while fiber %d holds it", l, idx, sp_holder[l]);
  sp_holder[l] = idx;
  // ticket order: the k-th acquisition is served ticket initial+k
  uint32_t serving = spl[l].state.counters.ticket;
  if (serving != sp_next_ticket[l])
    vs_violation("ticket_order", "spinlock %d: fiber %d acquired with now-serving %u, expected ticket %u", l, idx, serving, sp_next_ticket[l]);
  sp_next_ticket[l]++;
  sp_acq[l]++;
  vs_rt_exit();
}
GHOST static void gsp_rel(int l, int idx) {
  vs_rt_enter();
  if (sp_holder[l] != idx) vs_violation("mutex_overlap", "spinlock %d: bad release", l);
  sp_holder[l] = -1;
  vs_rt_exit();
}
static void sp_setup(void) {
  long n = cfg_get("nspin", 0);
  for (int i = 0; i < n && i < NSP; i++) {
    RT_DIRTY(spl[i]);
    fiber_spinlock_init(&spl[i]);
    sp_holder[i] = -1;
    uint32_t start = (uint32_t)cfg_get("spin_start", 0);
    spl[i].state.counters.ticket = start;
    spl[i].state.counters.users = start;
    sp_next_ticket[i] = start;
    vs_watch(&spl[i], sizeof spl[i]);
  }
}
static int sp_do_op(int idx, op_t* op) {
  int l = op->a % NSP;
  if (!strcmp(op->name, "slock")) {
    uint64_t p0 = vs_points();
    fiber_spinlock_lock(&spl[l]);
    if (vs_points() - p0 > 12) g_inc(&sp_contended);
  } else if (!strcmp(op->name, "strylock")) {
    g_nb_enter(idx);
    uint64_t spins0 = vs_spin_calls();
    int r = fiber_spinlock_trylock(&spl[l]);
    uint64_t spun = vs_spin_calls() - spins0;
    g_nb_exit(idx);
    // "trylock never waits": not by suspending the fiber (bracket above) and not by spinning
    if (spun) vs_violation("try_blocked", "fiber %d: fiber_spinlock_trylock on lock %d executed %llu spin-wait iterations before it returned %d", idx, l, (unsigned long long)spun, r);
    if (r != FIBER_SUCCESS) {
      g_inc(&sp_try_fail);
      return 1;
    }
    g_inc(&sp_try_ok);
  } else {
    return 0;
  }
  gsp_acq(l, idx, op->name[1] == 't');
  g_nb_enter(idx);  // a spinlock holder must not be suspended by the library
  long v = sp_cell[l];
  if (op->c) rt_work(idx, op->c);
  sp_cell[l] = v + 1;
  g_nb_exit(idx);
  gsp_rel(l, idx);
  fiber_spinlock_unlock(&spl[l]);
  return 1;
}
GHOST static void sp_final(void) {
  vs_rt_enter();
  long n = cfg_get("nspin", 0);
  for (int i = 0; i < n && i < NSP; i++) {
    if (sp_cell[i] != sp_acq[i]) vs_violation("value_mismatch", "spinlock %d: cell %ld after %ld critical sections", i, sp_cell[i], sp_acq[i]);
    if (spl[i].state.counters.ticket != spl[i].state.counters.users)
      vs_violation("value_mismatch", "spinlock %d: ticket %u != users %u after all released", i, (unsigned)spl[i].state.counters.ticket,
                   (unsigned)spl[i].state.counters.users);
  }
  vs_label_add("spin_try_ok", sp_try_ok);
  vs_label_add("spin_try_fail", sp_try_fail);
  vs_label_add("spin_contended", sp_contended);
  if (n && (sp_contended > 0 || sp_try_fail > 0)) rt_nontrivial("spin");
  vs_rt_exit();
}
const harness_t h_spin = {"spin", sp_setup, sp_do_op, 0, sp_final, 0};
