#!/bin/bash
# Apply a seeded change to /repo, run the given check(s), undo it straight afterwards.
# usage: try_seed.sh <seed dir with patch.diff> <tier> <property> [more properties]
SD=$1; TIER=$2; shift 2
cd /repo || exit 2
if [ -n "$(git status --porcelain --untracked-files=no)" ]; then echo "REPO NOT CLEAN"; exit 2; fi
if ! git apply --3way "$SD/patch.diff" >/dev/null 2>&1; then git checkout -q -- . ; git reset -q; echo "PATCH DOES NOT APPLY to current /repo"; exit 3; fi
git reset -q   # --3way stages; keep the change in the working tree only
if grep -rl '^<<<<<<<' src include >/dev/null 2>&1; then git checkout -q -- .; echo "PATCH CONFLICTS with current /repo"; exit 3; fi
cd /verif
for P in "$@"; do
  mkdir -p /verif/build/seedtmp; rm -rf /verif/build/seedtmp/replays_$P; [ -d replays/$P ] && cp -r replays/$P /verif/build/seedtmp/replays_$P
  OUT=$(VERIF_BUDGET=${VERIF_BUDGET:-40} timeout 1500 ./check $P $TIER 2>&1); RC=$?
  echo "$OUT" | grep -E "^violation kind|^C[0-9]+ $TIER|VIOLATION|ERROR|KNOWN" | head -6
  echo "RESULT seed=$(basename $SD) check=$P tier=$TIER rc=$RC"
  # replays found against a seeded tree belong to the seed, not to the regression tier
  mkdir -p $SD/found_$P; for f in replays/$P/*.json; do [ -e "$f" ] || continue; if [ ! -e /verif/build/seedtmp/replays_$P/$(basename $f) ]; then mv $f $SD/found_$P/; fi; done
done
git -C /repo checkout -q -- .
