// C19: context switch.  Built (by build.sh ctx) six times from /repo/src/fiber_context.c
// alone: stack strategy split|mmap|malloc x FIBER_FAST_SWITCHING on|off, with gcc.
// Executes a generated switch script, planting the callee-saved registers before every
// switch and checking them, the stack pointer and a frame of canaries on resumption.
#define _GNU_SOURCE
#include <pthread.h>
#include <stdint.h>
#include <stdio.h>
#include <stdlib.h>
#include <string.h>
#include <sys/mman.h>
#include <unistd.h>

#include "fiber_context.h"

#define MAXCTX 10
#define MAXSTEPS 256

typedef struct step {
  int target;
  int depth;  // 4 KiB frames of stack in use (pattern-filled, verified on resumption) below the switch
  uint64_t regs[6];
} step_t;

static int nctx;                 // including index 0 = the driving thread's own context
static size_t req_size[MAXCTX];
static step_t steps[MAXSTEPS + 1];
static int nsteps, phase2_at = -1, dirty_byte;
static uint64_t param_base;   // the argument handed to context i is param_base + i (values with bit 31 / high bits set)
static volatile int step_idx, phase_end;

static fiber_context_t ctx[MAXCTX];
static fiber_context_t main_ctx[2];
static fiber_context_t* cur_main;
static int created[MAXCTX], started[MAXCTX], destroyed_flag[MAXCTX];
static uint64_t entry_rsp[16], entry_rdi[16];
static void* stack_base[MAXCTX];
static size_t stack_size[MAXCTX];
static int release_count[MAXCTX];
static long n_switches, n_resumes, n_fresh;

uint64_t g_entry_rsp, g_entry_rdi;

static void fail(const char* kind, const char* fmt, ...) __attribute__((noreturn));
#include <stdarg.h>
static void fail(const char* kind, const char* fmt, ...) {
  char buf[512];
  va_list ap;
  va_start(ap, fmt);
  vsnprintf(buf, sizeof buf, fmt, ap);
  va_end(ap);
  printf("VIOLATION kind=%s detail=%s\n", kind, buf);
  fflush(stdout);
  _exit(10);
}

static fiber_context_t* ctxp(int i) { return i == 0 ? cur_main : &ctx[i]; }

// void ctx_swap_shim(from, to, in[6], out[6], &rsp_before, &rsp_after)
void ctx_swap_shim(fiber_context_t* from, fiber_context_t* to, const uint64_t* in, uint64_t* out, uint64_t* rsp_before, uint64_t* rsp_after);
__asm__(
    ".text\n"
    ".globl ctx_swap_shim\n"
    ".type ctx_swap_shim,@function\n"
    "ctx_swap_shim:\n"
    "  pushq %rbx\n  pushq %rbp\n  pushq %r12\n  pushq %r13\n  pushq %r14\n  pushq %r15\n"
    "  pushq %rcx\n  pushq %r9\n"
    "  subq $8, %rsp\n"
    "  movq %rsp, (%r8)\n"
    "  movq 0(%rdx), %rbx\n  movq 8(%rdx), %rbp\n  movq 16(%rdx), %r12\n  movq 24(%rdx), %r13\n  movq 32(%rdx), %r14\n  movq 40(%rdx), %r15\n"
    "  call fiber_context_swap\n"
    "  movq 16(%rsp), %rcx\n"
    "  movq 8(%rsp), %rax\n"
    "  movq %rsp, (%rax)\n"
    "  movq %rbx, 0(%rcx)\n  movq %rbp, 8(%rcx)\n  movq %r12, 16(%rcx)\n  movq %r13, 24(%rcx)\n  movq %r14, 32(%rcx)\n  movq %r15, 40(%rcx)\n"
    "  addq $24, %rsp\n"
    "  popq %r15\n  popq %r14\n  popq %r13\n  popq %r12\n  popq %rbp\n  popq %rbx\n"
    "  ret\n"
    ".size ctx_swap_shim, .-ctx_swap_shim\n"
    // entry stub of every fresh context: record rsp and rdi exactly as the switch delivered them
    ".globl ctx_entry_stub\n"
    ".type ctx_entry_stub,@function\n"
    "ctx_entry_stub:\n"
    "  movq %rsp, g_entry_rsp(%rip)\n"
    "  movq %rdi, g_entry_rdi(%rip)\n"
    "  jmp ctx_body\n"
    ".size ctx_entry_stub, .-ctx_entry_stub\n");
void* ctx_entry_stub(void*);

static const char* regname[6] = {"rbx", "rbp", "r12", "r13", "r14", "r15"};

static void drive(int self);

#ifdef FIBER_STACK_SPLIT
__attribute__((no_split_stack))
#endif
void* ctx_body(void* param) {
  int idx = (int)((uint64_t)(uintptr_t)param - param_base);
  if ((uint64_t)(uintptr_t)param - param_base >= MAXCTX) fail("entry_arg", "fresh context got argument %p, expected %#llx + its index", param, (unsigned long long)param_base);
  // the values recorded by the stub belong to this fresh context
  entry_rsp[idx & 15] = g_entry_rsp;
  entry_rdi[idx & 15] = g_entry_rdi;
  if (idx < 1 || idx >= nctx) fail("entry_arg", "fresh context got argument %p, no such context", param);
  started[idx] = 1;
  n_fresh++;
  drive(idx);
  fail("stack_clobbered", "context %d returned from its driver", idx);
}

static void do_switch(int self, int target, const uint64_t* vals) {
  volatile uint64_t frame[16];
  for (int i = 0; i < 16; i++) frame[i] = vals[i % 6] * 0x9E3779B97F4A7C15ull + (uint64_t)i + (uint64_t)self;
  uint64_t out[6] = {0}, rsp_before = 0, rsp_after = 1;
  if (!created[target] && target != 0) fail("engine", "switch to uncreated context %d", target);
  if (started[target] || target == 0) n_resumes++;
  n_switches++;
  ctx_swap_shim(ctxp(self), ctxp(target), vals, out, &rsp_before, &rsp_after);
  // resumed
  for (int i = 0; i < 6; i++)
    if (out[i] != vals[i])
      fail("register_clobbered", "context %d: %s was 0x%llx when it was switched out and 0x%llx on resumption", self, regname[i], (unsigned long long)vals[i],
           (unsigned long long)out[i]);
  if (rsp_before != rsp_after)
    fail("stack_clobbered", "context %d: rsp 0x%llx at suspension, 0x%llx on resumption", self, (unsigned long long)rsp_before, (unsigned long long)rsp_after);
  for (int i = 0; i < 16; i++)
    if (frame[i] != vals[i % 6] * 0x9E3779B97F4A7C15ull + (uint64_t)i + (uint64_t)self)
      fail("stack_clobbered", "context %d: stack word %d changed while it was suspended", self, i);
}

// switch while 'depth' further 4 KiB frames are live on the stack; every frame is verified after resumption.
// (split stacks: the context is suspended on a later stack segment than the one it was created with)
static long n_deep;
static __attribute__((noinline)) void deep_switch(int self, int target, const uint64_t* vals, int depth) {
  volatile uint64_t pad[512];
  for (int i = 0; i < 512; i++) pad[i] = vals[i % 6] ^ (0xA5A5A5A5A5A5A5A5ull * (uint64_t)(i + depth + 1));
  if (depth > 1) deep_switch(self, target, vals, depth - 1);
  else do_switch(self, target, vals);
  for (int i = 0; i < 512; i++)
    if (pad[i] != (vals[i % 6] ^ (0xA5A5A5A5A5A5A5A5ull * (uint64_t)(i + depth + 1))))
      fail("stack_clobbered", "context %d: stack word %d of a frame %d levels (4 KiB each) above the switch changed while it was suspended", self, i, depth);
}

static void drive(int self) {
  for (;;) {
    int s = step_idx;
    if (s >= phase_end) {
      if (self == 0) return;
      // script (or phase) exhausted while a fiber context is running: hand control back to the thread
      static const uint64_t final_vals[6] = {0x1111111111111111ull, 0x2222222222222222ull, 0x3333333333333333ull, 0x4444444444444444ull, 0x5555555555555555ull,
                                             0x6666666666666666ull};
      do_switch(self, 0, final_vals);
      continue;
    }
    step_idx = s + 1;
    int target = steps[s].target;
    if (target == self) continue;
    int d = steps[s].depth;
#ifndef FIBER_STACK_SPLIT
    // fixed-size stacks: stay inside the stack the context was given
    if (self != 0) {
      int room = stack_size[self] > 8192 + 4352 ? (int)((stack_size[self] - 8192) / 4352) : 0;
      if (d > room) d = room;
    }
#endif
    if (self == 0 && d > 100) d = 100;  // the driving pthread has a 1 MiB stack
    if (d > 0) {
      n_deep++;
      deep_switch(self, target, steps[s].regs, d);
    } else {
      do_switch(self, target, steps[s].regs);
    }
  }
}

// ---- release counting via --wrap ------------------------------------------------------------
static int find_stack(const void* p) {
  for (int i = 1; i < nctx; i++)
    if (created[i] && stack_base[i] == p) return i;
  return 0;
}
void __real_free(void*);
void __wrap_free(void* p) {
  int i = p ? find_stack(p) : 0;
  if (i) release_count[i]++;
  __real_free(p);
}
// everything a context maps while it is initialised must be unmapped again by its destroy (byte accounting, mmap strategy)
static int cur_init, cur_destroy;
static struct { uintptr_t lo, hi; int ctx; } maps[64];
static int n_maps;
static size_t mapped_bytes[MAXCTX], unmapped_bytes[MAXCTX];
void* __real_mmap(void*, size_t, int, int, int, long);
void* __wrap_mmap(void* a, size_t n, int prot, int flags, int fd, long off) {
  void* p = __real_mmap(a, n, prot, flags, fd, off);
  if (cur_init && p != MAP_FAILED && n_maps < 64) {
    maps[n_maps].lo = (uintptr_t)p;
    maps[n_maps].hi = (uintptr_t)p + n;
    maps[n_maps].ctx = cur_init;
    n_maps++;
    mapped_bytes[cur_init] += n;
  }
  return p;
}
int __real_munmap(void*, size_t);
int __wrap_munmap(void* p, size_t n) {
  int i = find_stack(p);
  if (i) release_count[i]++;
  for (int k = 0; k < n_maps; k++) {
    uintptr_t lo = (uintptr_t)p > maps[k].lo ? (uintptr_t)p : maps[k].lo;
    uintptr_t hi = (uintptr_t)p + n < maps[k].hi ? (uintptr_t)p + n : maps[k].hi;
    if (lo < hi) unmapped_bytes[maps[k].ctx] += hi - lo;
  }
  return __real_munmap(p, n);
}
#ifdef FIBER_STACK_SPLIT
void __real___splitstack_releasecontext(void*);
void __wrap___splitstack_releasecontext(void* c) {
  for (int i = 1; i < nctx; i++)
    if (created[i] && (void*)ctx[i].splitstack_context == c) release_count[i]++;
  __real___splitstack_releasecontext(c);
}
#endif

static void* phase_thread(void* arg) {
  int ph = (int)(intptr_t)arg;
  cur_main = &main_ctx[ph];
  if (fiber_context_init_from_thread(cur_main) != FIBER_SUCCESS) fail("engine", "init_from_thread failed");
  phase_end = (ph == 0 && phase2_at >= 0) ? phase2_at : nsteps;
  drive(0);
  return 0;
}

int main(int argc, char** argv) {
  if (argc < 2) return 2;
  FILE* f = fopen(argv[1], "r");
  if (!f) return 2;
  char w[32];
  nctx = 1;
  while (fscanf(f, "%31s", w) == 1) {
    if (!strcmp(w, "nctx")) {
      if (fscanf(f, "%d", &nctx) != 1) return 2;
    } else if (!strcmp(w, "size")) {
      int i;
      unsigned long b;
      if (fscanf(f, "%d %lu", &i, &b) != 2) return 2;
      if (i > 0 && i < MAXCTX) req_size[i] = b;
    } else if (!strcmp(w, "phase2")) {
      if (fscanf(f, "%d", &phase2_at) != 1) return 2;
    } else if (!strcmp(w, "parambase")) {
      if (fscanf(f, "%lx", &param_base) != 1) return 2;
    } else if (!strcmp(w, "dirty")) {
      // the fiber_context_t objects live in memory that is not zero (stack slot, recycled heap chunk, reused object)
      if (fscanf(f, "%d", &dirty_byte) != 1) return 2;
    } else if (!strcmp(w, "deep")) {
      int i, d;
      if (fscanf(f, "%d %d", &i, &d) != 2) return 2;
      if (i >= 0 && i < MAXSTEPS && d >= 0 && d <= 256) steps[i].depth = d;
    } else if (!strcmp(w, "step")) {
      if (nsteps >= MAXSTEPS) return 2;
      step_t* s = &steps[nsteps++];
      if (fscanf(f, "%d %lx %lx %lx %lx %lx %lx", &s->target, &s->regs[0], &s->regs[1], &s->regs[2], &s->regs[3], &s->regs[4], &s->regs[5]) != 7) return 2;
    }
  }
  fclose(f);
  if (nctx < 1 || nctx > MAXCTX) return 2;
  if (dirty_byte) {
    memset(ctx, dirty_byte, sizeof ctx);
    memset(main_ctx, dirty_byte, sizeof main_ctx);
  }
  for (int i = 1; i < nctx; i++) {
    cur_init = i;
    int init_ok = fiber_context_init(&ctx[i], req_size[i], &ctx_entry_stub, (void*)(uintptr_t)(param_base + (uint64_t)i)) == FIBER_SUCCESS;
    cur_init = 0;
    if (!init_ok) fail("engine", "fiber_context_init(%zu) failed", req_size[i]);
    created[i] = 1;
    stack_base[i] = ctx[i].ctx_stack;
    stack_size[i] = ctx[i].ctx_stack_size;
    // (the property does not promise "at least as large as requested": libgcc hands back 49096 bytes for a 49097-byte
    // split-stack request; split stacks grow on demand)
    if (!stack_base[i] || !stack_size[i]) fail("stack_clobbered", "context %d: requested %zu bytes of stack, got %zu at %p", i, req_size[i], stack_size[i], stack_base[i]);
  }
  // stacks pairwise disjoint
  for (int i = 1; i < nctx; i++)
    for (int j = i + 1; j < nctx; j++) {
      uintptr_t a = (uintptr_t)stack_base[i], b = (uintptr_t)stack_base[j];
      if (a < b + stack_size[j] && b < a + stack_size[i]) fail("stack_clobbered", "stacks of contexts %d and %d overlap", i, j);
    }
  // phase 1 on one pthread, phase 2 (if any) on another: contexts suspended by the first are resumed by the second
  for (int ph = 0; ph < (phase2_at >= 0 ? 2 : 1); ph++) {
    pthread_t t;
    pthread_attr_t at;
    pthread_attr_init(&at);
    pthread_attr_setstacksize(&at, 1 << 20);
    if (pthread_create(&t, &at, phase_thread, (void*)(intptr_t)ph)) fail("engine", "pthread_create");
    pthread_join(t, 0);
  }
  // entry checks for every context that was started
  for (int i = 1; i < nctx; i++) {
    if (!started[i]) continue;
    if (entry_rdi[i] != param_base + (uint64_t)i) fail("entry_arg", "context %d started with rdi=0x%llx instead of its argument 0x%llx", i, (unsigned long long)entry_rdi[i], (unsigned long long)(param_base + (uint64_t)i));
    if ((entry_rsp[i] & 15) != 8) fail("entry_misaligned", "context %d entered its function with rsp=0x%llx (rsp mod 16 = %d, the ABI requires 8)", i, (unsigned long long)entry_rsp[i], (int)(entry_rsp[i] & 15));
    uintptr_t lo = (uintptr_t)stack_base[i], hi = lo + stack_size[i];
    if (entry_rsp[i] <= lo || entry_rsp[i] > hi) fail("stack_clobbered", "context %d entered with rsp=0x%llx outside its own stack [%p,+%zu)", i, (unsigned long long)entry_rsp[i], stack_base[i], stack_size[i]);
  }
  for (int i = 1; i < nctx; i++) {
    fiber_context_destroy(&ctx[i]);
    destroyed_flag[i] = 1;
    if (release_count[i] != 1) fail("stack_release_count", "context %d: stack released %d times by fiber_context_destroy", i, release_count[i]);
    if (unmapped_bytes[i] != mapped_bytes[i])
      fail("stack_release_count", "context %d: fiber_context_init mapped %zu bytes, fiber_context_destroy unmapped %zu of them", i, mapped_bytes[i], unmapped_bytes[i]);
  }
  fiber_context_destroy(&main_ctx[0]);
  if (phase2_at >= 0) fiber_context_destroy(&main_ctx[1]);
  printf("OK switches=%ld resumes=%ld fresh=%ld deep=%ld\n", n_switches, n_resumes, n_fresh, n_deep);
  return 0;
}
