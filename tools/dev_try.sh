#!/bin/bash
# development aid: apply a patch to the scratch worktree /tmp/dev_repo, build the rt runner into /verif/build_dev, run one case file, revert.
# usage: dev_try.sh <patch.diff> <case.txt> [runner args...]
[ -d /tmp/dev_repo ] || git -C /repo worktree add -q --detach /tmp/dev_repo HEAD  # scratch worktree; remove with: git -C /repo worktree remove --force /tmp/dev_repo
P=$1; C=$2; shift 2
git -C /tmp/dev_repo checkout -q -- . && git -C /tmp/dev_repo apply "$P" || exit 2
VERIF_REPO=/tmp/dev_repo /verif/build.sh rt /verif/build_dev 2>&1 | tail -1
/verif/build_dev/runner_rt "$C" "$@" 2>&1 | tail -2
git -C /tmp/dev_repo checkout -q -- .
