#ifndef LIN_H
#define LIN_H
#include <stddef.h>
#include <stdint.h>

#define LIN_MAX_OPS 4096
#define LIN_MAX_VALS 64

enum { OP_PUSH = 1, OP_PUSH_FAIL, OP_POP, OP_POP_EMPTY, OP_NOOP, OP_FLUSH_LIFO, OP_FLUSH_FIFO };
enum { MODEL_FIFO = 1, MODEL_LIFO };
enum { EXCUSE_NONE = 0, EXCUSE_PUSH_OVERLAP, EXCUSE_ANY_OVERLAP };

typedef struct hop {
  int thread;
  int kind;
  long arg;
  long res;
  uint64_t inv, resp;
  int excused;
  int nvals;
  long vals[LIN_MAX_VALS];
} hop_t;

void lin_reset(void);
int lin_begin(int thread, int kind, long arg);   // returns op id; logical invocation time is taken now
void lin_end(int id, int kind, long res);        // final kind (e.g. OP_POP vs OP_POP_EMPTY) and result
int lin_count(void);
hop_t* lin_ops(void);
// 1 = linearizable w.r.t. the model, 0 = not, -1 = gave up (too long)
int lin_check(int model, int capacity, int excuse_rule);
void lin_describe(char* buf, size_t n);
#endif
