// rt_core.c - runtime runner driver (uninstrumented): case parser, one forked
// child per execution, schedule derivation, ghost monitors fed by the guarded
// hooks in /repo, decision-list minimiser, JSON result line.
#ifndef _GNU_SOURCE
#define _GNU_SOURCE
#endif
#include <errno.h>
#include <fcntl.h>
#include <signal.h>
#include <stdarg.h>
#include <stdio.h>
#include <stdlib.h>
#include <string.h>
#include <sys/mman.h>
#include <sys/syscall.h>
#include <sys/wait.h>
#include <time.h>
#include <unistd.h>

#include "fiber_manager.h"
#include "rt.h"

rcase_t g_case;

// brackets around library calls that contain a site listed (open) in known_findings.json: 8-byte reads of freed memory
// inside them are recorded and judged by the front end against that file, so that the search goes on behind the finding
int rt_tolerate_known_reads = 1;
void rt_known_read_site(int enter) {
  if (rt_tolerate_known_reads) vs_tolerate_freed_read8(enter);
}
GHOST void rt_dirty(void* p, unsigned long n) {
  static const unsigned char pat[] = {0, 0xA5, 0xFF, 0x01, 0x80};
  long k = cfg_get("dirty", 0);
  if (k <= 0 || k > 4) return;
  volatile unsigned char* b = p;
  for (unsigned long i = 0; i < n; i++) b[i] = pat[k];
}
long cfg_get(const char* key, long dflt) {
  for (int i = 0; i < g_case.n_cfg; i++)
    if (!strcmp(g_case.cfg_key[i], key)) return g_case.cfg_val[i];
  return dflt;
}

// ---------------------------------------------------------------------------
// ghost monitors
enum { GS_NONE = 0, GS_SAVED, GS_RUNNING, GS_SWITCHING_OUT, GS_DESTROYED };
typedef struct grec {
  fiber_t* f;
  int sched_thread;
  int state;
  int on_thread;
  int pending;
  int idx;  // program fiber index or -1
  int is_thread_fiber;
  int nb;      // inside a non-blocking bracket
  int switches;
  int early_wake_seen;
} grec_t;

#define GTAB (1 << 18)
static grec_t gtab[GTAB];
static int g_used[GTAB / 2];  // slots in use, in creation order (iteration never walks the whole table)
static int g_nrec;
static grec_t* g_by_idx[MAX_FIBERS];
static int g_done_flag[MAX_FIBERS];
static int g_opno[MAX_FIBERS];
static int g_sleeping[MAX_FIBERS];
static fiber_t* g_pending_old[VS_MAX_THREADS];
static grec_t* g_running[VS_MAX_THREADS];
static int g_running_maint[VS_MAX_THREADS];  // 1 = the maintenance (idle-loop) fiber runs on that vthread, -1 = unknown yet
static uint64_t g_seq;
static swlog_t g_sw[VS_MAX_THREADS];
static int g_kernel_block_expected;
#define GEV_MAX (1 << 17)
static gev_t g_events[GEV_MAX];
static int g_nev;
static inline void gev_add(int type, int thread, int who) {
  if (g_nev < GEV_MAX) {
    g_events[g_nev].type = (uint8_t)type;
    g_events[g_nev].thread = (int8_t)thread;
    g_events[g_nev].who = (int16_t)who;
    g_nev++;
  }
}
const gev_t* g_evlog(int* n) {
  *n = g_nev;
  return g_events;
}
static inline int who_of(grec_t* r) { return r->idx >= 0 ? r->idx : (r->is_thread_fiber ? -1 : -3); }

static grec_t* g_find(fiber_t* f, int create) {
  uintptr_t h = ((uintptr_t)f >> 4) * 0x9E3779B97F4A7C15ull;
  for (int k = 0; k < GTAB; k++) {
    grec_t* r = &gtab[(h + k) % GTAB];
    if (r->f == f) return r;
    if (!r->f) {
      if (!create) return 0;
      if (g_nrec >= GTAB / 2) break;
      r->f = f;
      r->idx = -1;
      g_used[g_nrec++] = (int)(r - gtab);
      return r;
    }
  }
  vs_violation("engine_limit", "ghost table full");
}

static const char* gs_name(int s) {
  switch (s) {
    case GS_SAVED: return "SAVED";
    case GS_RUNNING: return "RUNNING";
    case GS_SWITCHING_OUT: return "SWITCHING_OUT";
    case GS_DESTROYED: return "DESTROYED";
  }
  return "UNKNOWN";
}

static long g_ns_bypass[MAX_FIBERS];
static int g_maint_marker;
static long g_steal_count, g_early_count;
long g_steals(void) { return g_steal_count; }
long g_early_wakes(void) { return g_early_count; }
void rt_nontrivial(const char* name) {
  if (!strcmp(g_case.harness, name)) vs_label_add("nontrivial", 1);
}
// the program index the next fiber created *by this vthread* gets (0 = none, else idx + 1): other vthreads may create
// anonymous fibers in between
static int g_next_spawn_t[VS_MAX_THREADS];
void g_expect_spawn(int idx) { g_next_spawn_t[vs_self()] = idx + 1; }

void verif_fiber_created(struct fiber* f) {
  if (!vs_active()) return;
  vs_rt_enter();
  grec_t* r = g_find(f, 1);
  if (r->state != GS_NONE) vs_violation("engine_limit", "fiber address reused %p", (void*)f);
  if (g_next_spawn_t[vs_self()] > 0 && !f->context.is_thread) {
    r->idx = g_next_spawn_t[vs_self()] - 1;
    g_by_idx[r->idx] = r;
    g_next_spawn_t[vs_self()] = 0;
  }
  if (f->context.is_thread) {
    r->state = GS_RUNNING;
    r->on_thread = vs_self();
    r->is_thread_fiber = 1;
    // manager creation happens on the creating thread for all managers; the
    // real owner is fixed up at the first switch hook on that thread
  } else {
    r->state = GS_SAVED;
    r->on_thread = -1;
    if (f->context.ctx_stack) vs_register_stack(f->context.ctx_stack, f->context.ctx_stack_size);
  }
  vs_label_add("fibers_created", 1);
  vs_rt_exit();
}

void verif_fiber_destroy(struct fiber* f) {
  if (!vs_active()) return;
  vs_rt_enter();
  grec_t* r = g_find(f, 0);
  if (!r) vs_violation("destroyed_in_use", "destroy of unknown fiber %p", (void*)f);
  if (r->state == GS_DESTROYED) vs_violation("reclaim_count", "fiber %d (%p) destroyed twice", r->idx, (void*)f);
  if (r->state != GS_SAVED)
    vs_violation("destroyed_in_use", "fiber %d (%p) destroyed while %s on vthread %d", r->idx, (void*)f, gs_name(r->state), r->on_thread);
  if (r->pending) vs_violation("destroyed_in_use", "fiber %d (%p) destroyed while queued to run", r->idx, (void*)f);
  if (r->idx >= 0 && !g_done_flag[r->idx])
    vs_violation("destroyed_in_use", "fiber %d destroyed before its function returned", r->idx);
  r->state = GS_DESTROYED;
  vs_label_add("fibers_destroyed", 1);
  vs_rt_exit();
}

void verif_scheduled(void* scheduler, struct fiber* f) {
  if (!vs_active()) return;
  vs_rt_enter();
  // the run queues are owner-only at the pushing end: a fiber may only be made runnable on the scheduler of the kernel
  // thread the caller is running on (a manager pointer kept across a suspension goes stale when the fiber is stolen)
  fiber_manager_t* mine = fiber_manager_get();
  if (mine && mine->scheduler && (void*)mine->scheduler != scheduler)
    vs_violation("foreign_queue_push", "vthread %d pushed fiber %p onto the run queue of another kernel thread's scheduler (%p, its own is %p): the owner end of a "
                 "work-stealing deque was used by a thread that does not own it", vs_self(), (void*)f, scheduler, (void*)mine->scheduler);
  if (mine && f == mine->maintenance_fiber) vs_label_add("maintenance_fiber_queued", 1);
  grec_t* r = g_find(f, 0);
  if (!r) vs_violation("pending_wake_range", "schedule of unknown fiber %p", (void*)f);
  if (r->state == GS_DESTROYED) vs_violation("destroyed_in_use", "fiber %d (%p) scheduled after it was reclaimed", r->idx, (void*)f);
  r->pending++;
  if (r->pending > 1)
    vs_violation("pending_wake_range", "fiber %d (%p) made runnable twice for one wake-up (state %s)", r->idx, (void*)f, gs_name(r->state));
  if (r->state == GS_RUNNING || r->state == GS_SWITCHING_OUT) {
    vs_label_add("early_wake", 1);
    g_early_count++;
    r->early_wake_seen = 1;
  }
  gev_add(1, vs_self(), who_of(r));
  r->sched_thread = vs_self();
  vs_progress();
  vs_rt_exit();
}

void verif_switch(struct fiber_manager* m, struct fiber* oldf, struct fiber* newf) {
  if (!vs_active()) return;
  vs_rt_enter();
  int T = vs_self();
  grec_t* o = g_find(oldf, 0);
  grec_t* n = g_find(newf, 0);
  if (!o || !n) vs_violation("resumed_unsaved", "switch involving unknown fiber");
  if (o->is_thread_fiber && o->state == GS_RUNNING) o->on_thread = T;  // fix-up, see created hook
  if (o->nb) vs_violation("try_blocked", "fiber %d was suspended inside a call that must not block (op %d)", o->idx, o->idx >= 0 ? g_opno[o->idx] : -1);
  if (n->state == GS_DESTROYED) vs_violation("destroyed_in_use", "switch to reclaimed fiber %d (%p)", n->idx, (void*)newf);
  if (n->state != GS_SAVED)
    vs_violation(n->state == GS_RUNNING ? "ran_on_two_threads" : "resumed_unsaved",
                 "vthread %d resumes fiber %d (%p) which is %s on vthread %d (its suspension has not completed)", T, n->idx, (void*)newf,
                 gs_name(n->state), n->on_thread);
  if (o->state != GS_RUNNING || o->on_thread != T)
    vs_violation("ran_on_two_threads", "vthread %d switches away from fiber %d which is %s on vthread %d", T, o->idx, gs_name(o->state), o->on_thread);
  int is_maint = (newf == m->maintenance_fiber);
  if (!is_maint) {
    if (n->pending != 1)
      vs_violation("pending_wake_range", "fiber %d (%p) switched in with %d pending wake-ups (an entry was duplicated)", n->idx, (void*)newf, n->pending);
    n->pending = 0;
    if (n->sched_thread != T) {
      g_steal_count++;
      vs_label_add("steals", 1);
    }
    vs_progress();
  }
  o->state = GS_SWITCHING_OUT;
  n->state = GS_RUNNING;
  n->on_thread = T;
  n->switches++;
  if (n->idx >= 0) g_ns_bypass[n->idx] = 0;
  g_pending_old[T] = oldf;
  g_running[T] = n;
  g_running_maint[T] = is_maint;
  g_seq++;
  swlog_t* L = &g_sw[T];
  if (L->n < 8192) L->who[L->n++] = is_maint ? -2 : (n->idx >= 0 ? n->idx : (n->is_thread_fiber ? -1 : -3));
  gev_add(0, T, is_maint ? -2 : who_of(n));
  if (oldf->state == FIBER_STATE_READY) vs_label_add("yield_switch", 1);
  vs_label_add("fiber_switches", 1);
  (void)g_maint_marker;
  vs_rt_exit();
}

static struct fiber_manager* g_mgr[VS_MAX_THREADS];
void verif_switched(struct fiber_manager* m) {
  if (!vs_active()) return;
  vs_rt_enter();
  int T = vs_self();
  g_mgr[T] = m;
  fiber_t* oldf = g_pending_old[T];
  if (oldf) {
    grec_t* o = g_find(oldf, 0);
    if (o && o->state == GS_SWITCHING_OUT) {
      o->state = GS_SAVED;
      o->on_thread = -1;
    }
    g_pending_old[T] = 0;
  }
  vs_rt_exit();
}

void g_bind(int idx) {
  vs_rt_enter();
  fiber_manager_t* m = fiber_manager_get();
  grec_t* r = g_find(m->current_fiber, 0);
  if (!r) vs_violation("engine_limit", "bind: unknown fiber");
  r->idx = idx;
  g_by_idx[idx] = r;
  vs_rt_exit();
}
void g_done(int idx) {
  g_done_flag[idx] = 1;
  vs_program_advanced();
}
int g_is_done(int idx) { return g_done_flag[idx]; }
void g_set_op(int idx, int opno) {
  g_opno[idx] = opno;
  vs_program_advanced();
}
int g_fiber_saved(int idx) { return g_by_idx[idx] && g_by_idx[idx]->state == GS_SAVED; }
int g_fiber_destroyed(int idx) { return g_by_idx[idx] && g_by_idx[idx]->state == GS_DESTROYED; }
uint64_t g_ticks(void) { return vs_ticks_delivered(); }
void* g_fiber_ptr(int idx) { return g_by_idx[idx] ? g_by_idx[idx]->f : 0; }
int g_cur_idx(void) {
  grec_t* r = g_running[vs_self()];
  return r ? r->idx : -1;
}
void g_nb_enter(int idx) {
  if (g_by_idx[idx]) g_by_idx[idx]->nb++;
}
void g_nb_exit(int idx) {
  if (g_by_idx[idx]) g_by_idx[idx]->nb--;
}
void g_sleep_enter(int idx) { g_sleeping[idx] = 1; }
void g_sleep_exit(int idx) { g_sleeping[idx] = 0; }
int g_sleepers(void) {
  int n = 0;
  for (int i = 0; i < g_case.n_fibers; i++) n += g_sleeping[i];
  return n;
}
uint64_t g_switch_seq(void) { return g_seq; }
// a fiber_yield by program fiber idx came back without any switch.  Exact view of what it passed over: the fibers that sit
// in the run queues of this very kernel thread right now (only the owner pushes, and the owner is the caller, so nothing
// can have been added since the scheduler looked).  Valid with any number of kernel threads.
// a program fiber is about to call fiber_yield: from here on it counts as ready on this kernel thread, whether or not the
// library ever passes it to the scheduler again (event type 3)
GHOST void g_yield_begin(int idx) { gev_add(3, vs_self(), idx); }
GHOST void g_yield_noswitch(int idx) {
  gev_add(2, vs_self(), idx);
  if (strcmp(g_case.harness, "yield")) return;
  fiber_manager_t* m = fiber_manager_get();
  if (!m || !m->scheduler) return;
  struct { wsd_work_stealing_deque_t* q1; wsd_work_stealing_deque_t* q2; }* sc = (void*)m->scheduler;
  wsd_work_stealing_deque_t* qs[2] = {sc->q1, sc->q2};
  const long bound = 2 * (g_case.n_fibers + 1) + 2;
  for (int k = 0; k < 2; k++) {
    wsd_work_stealing_deque_t* q = qs[k];
    int64_t t = q->top, b = q->bottom;
    wsd_circular_array_t* a = q->underlying_array;
    for (int64_t i = t; i < b && i < t + 100000; i++) {
      grec_t* r = g_find((fiber_t*)a->data[i & a->size_minus_one].data, 0);
      if (!r || r->idx < 0 || r->idx == idx) continue;
      if (++g_ns_bypass[r->idx] > bound) {
        vs_rt_enter();
        vs_violation("bypass_bound", "fiber %d sat in the run queue of kernel thread %d while %ld calls of fiber_yield on that thread returned without switching to anybody "
                     "(bound %ld for %d fibers); last: fiber %d", r->idx, vs_self(), g_ns_bypass[r->idx], bound, g_case.n_fibers, idx);
      }
    }
  }
}
int g_fiber_switches(int idx) { return g_by_idx[idx] ? g_by_idx[idx]->switches : 0; }
void g_expect_kernel_block(int on) { g_kernel_block_expected = on; }
int g_n_done(void) {
  int n = 0;
  for (int i = 0; i < g_case.n_fibers; i++) n += g_done_flag[i];
  return n;
}
int g_all_done(void) { return g_n_done() == g_case.n_fibers; }
const swlog_t* g_swlog(int vthread) { return &g_sw[vthread]; }
int g_ready_count(void) {
  int n = 0;
  for (int u = 0; u < g_nrec; u++)
    if (gtab[g_used[u]].pending) n++;
  return n;
}
void g_note_main_parked(void) {}

// generic quiescence handling -------------------------------------------------
static const harness_t* H;
static int g_quiescences;

static void describe_unfinished(char* buf, size_t n) {
  size_t o = 0;
  for (int i = 0; i < g_case.n_fibers && o + 40 < n; i++)
    if (!g_done_flag[i]) {
      const op_t* op = g_opno[i] < g_case.n_ops[i] ? &g_case.ops[i][g_opno[i]] : 0;
      o += snprintf(buf + o, n - o, "fiber %d at op %d (%s %d %d) [lib state %d, %s, pending %d]; ", i, g_opno[i], op ? op->name : "?", op ? op->a : 0, op ? op->b : 0,
                    g_by_idx[i] ? (int)g_by_idx[i]->f->state : -1, g_by_idx[i] ? gs_name(g_by_idx[i]->state) : "?", g_by_idx[i] ? g_by_idx[i]->pending : -1);
    }
}

static void on_quiescence(void) {
  vs_rt_enter();
  g_quiescences++;
  {
    uint64_t spins = 0;
    for (int t = 0; t < VS_MAX_THREADS; t++)
      if (g_mgr[t]) spins += g_mgr[t]->wake_mpsc_spin_count;
    vs_label_max("waker_found_queue_empty", spins);  // unlock/signal that had to wait for an announced, not yet enqueued waiter
  }
  vs_label_add("quiescences", 1);
  // C02: when every kernel thread has gone idle no runnable fiber remains queued
  for (int u = 0; u < g_nrec; u++)
    if (gtab[g_used[u]].pending && gtab[g_used[u]].state != GS_DESTROYED)
    {
      const int i = g_used[u];
      char buf[300];
      size_t o = 0;
      typedef struct { wsd_work_stealing_deque_t* q1; wsd_work_stealing_deque_t* q2; wsd_work_stealing_deque_t* from; wsd_work_stealing_deque_t* to; } dbg_sched_t;
      for (int t = 0; t < g_case.threads; t++) {
        dbg_sched_t* sc = (dbg_sched_t*)fiber_scheduler_for_thread((size_t)t);
        o += snprintf(buf + o, sizeof buf - o, "T%d from[t=%ld b=%ld] to[t=%ld b=%ld]; ", t, (long)sc->from->top, (long)sc->from->bottom, (long)sc->to->top,
                      (long)sc->to->bottom);
      }
      vs_violation("runnable_never_run", "fiber %d (thread_fiber=%d, sched on T%d, now on T%d, switches %d) (%p, lib state %d, ghost %s) was made runnable but no kernel thread runs it although all are idle; %s", gtab[i].idx, gtab[i].is_thread_fiber, gtab[i].sched_thread, gtab[i].on_thread, gtab[i].switches,
                   (void*)gtab[i].f, gtab[i].f->state, gs_name(gtab[i].state), buf);
    }
  if (g_quiescences > 4000) vs_violation("livelock", "more than 4000 quiescence rounds");
  vs_rt_exit();
  if (g_sleepers() > 0) {
    long per = cfg_get("ticks_per_quiescence", 1);
    vs_timer_tick((uint64_t)per);
    vs_label_add("ticks", (uint64_t)per);
    return;
  }
  if (H->at_quiescence && H->at_quiescence()) return;
  vs_rt_enter();
  if (!g_all_done()) {
    int bad = 0;
    for (int i = 0; i < g_case.n_fibers; i++)
      if (!g_done_flag[i] && !(H->expect_unfinished && H->expect_unfinished(i))) bad = 1;
    if (bad) {
      char buf[300];
      describe_unfinished(buf, sizeof buf);
      vs_violation("stranded", "all kernel threads idle, nothing pending, but: %s", buf);
    }
  }
  // anonymous (crowd) fibers: every fiber the program created has finished and been reclaimed by now - they are all detached
  // and the system is idle for good.  The kernel threads' own idle fibers are not program fibers.
  if (g_all_done()) {
    int left = 0;
    fiber_t* example = 0;
    for (int u = 0; u < g_nrec; u++) {
      grec_t* r = &gtab[g_used[u]];
      if (r->idx >= 0 || r->is_thread_fiber || r->state == GS_DESTROYED) continue;
      int is_idle_fiber = 0;
      for (int t = 0; t < VS_MAX_THREADS; t++)
        if (g_mgr[t] && (g_mgr[t]->maintenance_fiber == r->f || g_mgr[t]->thread_fiber == r->f)) is_idle_fiber = 1;
      if (is_idle_fiber || r->switches == 0) continue;  // (a fiber that never ran is an idle fiber created for later)
      left++;
      example = r->f;
    }
    if (left)
      vs_violation("stranded", "all kernel threads idle, every program fiber finished, but %d further fiber(s) the program started (a crowd) never finished, e.g. %p in library "
                   "state %d", left, (void*)example, (int)example->state);
  }
  vs_rt_exit();
  if (H->final_check) H->final_check();
  vs_finish_ok();
}

static int idle_context(void) {
  int T = vs_self();
  // kernel threads other than the first start directly in their idle loop
  if (!g_running[T]) return T != 0;
  return g_running_maint[T];
}
static const char* describe_state(void) {
  static char buf[300];
  describe_unfinished(buf, sizeof buf);
  return buf;
}
const harness_t* rt_harness(void) { return H; }
// (A check "a kernel thread enters a blocking poll only with nothing runnable in its own run queues" was tried here and
// removed: the unchanged tree does that too - fiber_scheduler_next sets an early-woken fiber (still SAVING_STATE_TO_WAIT) aside
// in store_to and may return NULL, the fiber becomes runnable a moment later and the thread sleeps its 5 ms poll on top of it.
// The delay is bounded and another thread can steal the fiber; C02 speaks about the state once everything is idle.)
void rt_install_quiescence(void) {
  vs_set_quiescence_cb(on_quiescence);
  vs_describe_state = describe_state;
  vs_idle_context = idle_context;
}

// ---------------------------------------------------------------------------
// case parser
static char* slurp(const char* path) {
  FILE* f = fopen(path, "r");
  if (!f) {
    fprintf(stderr, "cannot open %s\n", path);
    exit(2);
  }
  fseek(f, 0, SEEK_END);
  long n = ftell(f);
  fseek(f, 0, SEEK_SET);
  char* b = malloc(n + 1);
  if (fread(b, 1, n, f) != (size_t)n) exit(2);
  b[n] = 0;
  fclose(f);
  return b;
}

static void parse_case(const char* path) {
  char* txt = slurp(path);
  memset(&g_case, 0, sizeof g_case);
  g_case.threads = 1;
  char* save = 0;
  for (char* line = strtok_r(txt, "\n", &save); line; line = strtok_r(0, "\n", &save)) {
    char* s2 = 0;
    char* w = strtok_r(line, " \t", &s2);
    if (!w || *w == '#') continue;
    if (!strcmp(w, "harness")) {
      strncpy(g_case.harness, strtok_r(0, " \t", &s2), 31);
    } else if (!strcmp(w, "threads")) {
      g_case.threads = atoi(strtok_r(0, " \t", &s2));
    } else if (!strcmp(w, "cfg")) {
      char* k = strtok_r(0, " \t", &s2);
      char* v = strtok_r(0, " \t", &s2);
      if (k && v && g_case.n_cfg < MAX_CFG) {
        strncpy(g_case.cfg_key[g_case.n_cfg], k, 23);
        g_case.cfg_val[g_case.n_cfg++] = atol(v);
      }
    } else if (!strcmp(w, "fiber")) {
      if (g_case.n_fibers >= MAX_FIBERS) {
        fprintf(stderr, "too many fibers\n");
        exit(2);
      }
      int fi = g_case.n_fibers++;
      for (;;) {
        char* name = strtok_r(0, " \t", &s2);
        if (!name) break;
        char* a = strtok_r(0, " \t", &s2);
        char* b = strtok_r(0, " \t", &s2);
        char* c = strtok_r(0, " \t", &s2);
        if (!a || !b || !c || g_case.n_ops[fi] >= MAX_OPS) {
          fprintf(stderr, "bad op list in fiber %d\n", fi);
          exit(2);
        }
        op_t* op = &g_case.ops[fi][g_case.n_ops[fi]++];
        strncpy(op->name, name, 15);
        op->a = atoi(a);
        op->b = atoi(b);
        op->c = atoi(c);
      }
    }
  }
  free(txt);
  if (g_case.threads < 1 || g_case.threads > VS_MAX_THREADS - 1) {
    fprintf(stderr, "bad thread count\n");
    exit(2);
  }
}

// ---------------------------------------------------------------------------
// one execution = one forked child
static vs_result_t* shres;
static double now_s(void) {
  struct timespec ts;
  clock_gettime(CLOCK_MONOTONIC, &ts);
  return ts.tv_sec + ts.tv_nsec * 1e-9;
}
static void nap_us(long us) {
  struct timespec ts = {us / 1000000, (us % 1000000) * 1000};
  syscall(SYS_nanosleep, &ts, 0);
}

static double g_wall_limit = 20.0;

// returns status: 1 ok, 2 violation, 3 inconclusive
static int run_one(const vs_config_t* cfg) {
  memset(shres, 0, sizeof *shres);
  fflush(stdout);
  fflush(stderr);
  pid_t pid = fork();
  if (pid < 0) {
    perror("fork");
    exit(2);
  }
  if (pid == 0) {
    vs_res = shres;
    vs_install_crash_handlers();
    int st = vs_run_inproc(cfg, H->entry ? H->entry : rt_main, 0);
    _exit(st == 1 ? 0 : st == 2 ? 10 : 11);
  }
  double t0 = now_s();
  int wst = 0;
  long nap = 50;
  for (;;) {
    pid_t r = waitpid(pid, &wst, WNOHANG);
    if (r == pid) break;
    if (now_s() - t0 > g_wall_limit) {
      // classify: blocked in the kernel or spinning?
      char p[64], buf[256] = {0};
      snprintf(p, sizeof p, "/proc/%d/syscall", (int)pid);
      int fd = (int)syscall(SYS_open, p, O_RDONLY);
      if (fd >= 0) {
        (void)!syscall(SYS_read, fd, buf, sizeof buf - 1);
        syscall(SYS_close, fd);
      }
      kill(pid, SIGKILL);
      waitpid(pid, &wst, 0);
      if (shres->status == 0) {
        if (buf[0] && strncmp(buf, "running", 7) != 0 && strncmp(buf, "-1", 2) != 0) {
          snprintf(shres->kind, sizeof shres->kind, "kernel_thread_blocked");
          snprintf(shres->detail, sizeof shres->detail, "child blocked in syscall: %.100s", buf);
          shres->status = 2;
        } else {
          snprintf(shres->kind, sizeof shres->kind, "inconclusive");
          snprintf(shres->detail, sizeof shres->detail, "wall clock limit");
          shres->status = 3;
        }
      }
      return shres->status;
    }
    nap_us(nap);
    if (nap < 2000) nap *= 2;
  }
  if (shres->status == 0) {
    snprintf(shres->kind, sizeof shres->kind, "crash:exit");
    snprintf(shres->detail, sizeof shres->detail, "child ended without a verdict (wait status 0x%x)", wst);
    shres->status = 2;
  }
  return shres->status;
}

// ---------------------------------------------------------------------------
static uint64_t mix(uint64_t x) {
  x += 0x9E3779B97F4A7C15ull;
  x = (x ^ (x >> 30)) * 0xBF58476D1CE4E5B9ull;
  x = (x ^ (x >> 27)) * 0x94D049BB133111EBull;
  return x ^ (x >> 31);
}

static uint64_t g_soft = 400000, g_hard = 4000000, g_base_seed, g_long_stall;

static uint64_t base_watch_t[VS_MAX_THREADS], base_points_t[VS_MAX_THREADS];
static void derive_cfg(vs_config_t* c, uint64_t base_seed, int i, uint64_t base_points, uint64_t base_watch, int tso_mode, char* sname,
                       size_t sn) {
  memset(c, 0, sizeof *c);
  uint64_t h = mix(base_seed * 1000003ull + (uint64_t)i);
  c->seed = h;
  c->soft_budget = g_soft;
  c->hard_budget = g_hard;
  c->tso = tso_mode == 2 ? 1 : tso_mode == 1 ? ((h >> 40) % 3 == 0) : 0;
  if (i == 0) {
    c->strategy = VS_STRAT_FAIR;
    c->tso = 0;
    snprintf(sname, sn, "fair");
    return;
  }
  int sel = (int)((h >> 8) % 8);
  // thread-level harnesses have short threads: there any scheduling point of the thread is a candidate stall point
  // (runtime harnesses: one stall in four is placed at an arbitrary scheduling point of the thread instead of an access to the
  // watched object - windows that open right *after* the last access to it, e.g. between publishing a wait node and the end of the
  // context switch, are only reachable that way)
  int any = H->entry != 0 ? (int)((h >> 33) & 1) : (((h >> 33) & 3) == 0);
  if (sel >= 6 && (base_watch >= 4 || any)) {
    // stall: random walk, plus one thread held at one of its own accesses (to the watched object, or any)
    int cand[VS_MAX_THREADS], nc = 0;
    for (int t = 0; t < VS_MAX_THREADS; t++)
      if ((any ? base_points_t[t] : base_watch_t[t]) > 0) cand[nc++] = t;
    if (nc > 0) {
      static const int ps[] = {2, 4, 6};
      static const uint64_t lens[] = {3000, 30000, 300000};
      int t = cand[(h >> 20) % (uint64_t)nc];
      c->strategy = VS_STRAT_RANDOM;
      c->p_log2 = ps[(h >> 16) % 3];
      c->stall_thread = t + 1;
      c->stall_any = any;
      c->stall_at = 1 + (h >> 36) % (any ? base_points_t[t] : base_watch_t[t]);
      c->stall_len = lens[(h >> 24) % 3];
      if (nc > 1 && ((h >> 34) & 1)) {
        // hold a second thread as well
        int t2 = cand[((h >> 40) % (uint64_t)(nc - 1) + 1 + (uint64_t)((h >> 20) % (uint64_t)nc)) % (uint64_t)nc];
        if (t2 != t) {
          c->stall_thread2 = t2 + 1;
          c->stall_at2 = 1 + (h >> 44) % (any ? base_points_t[t2] : base_watch_t[t2]);
        }
      }
      snprintf(sname, sn, "%s%s_p%d", any ? "stallany" : "stall", c->stall_thread2 ? "2" : "", c->p_log2);
      if (c->tso) strncat(sname, "+tso", sn - strlen(sname) - 1);
      return;
    }
  }
  sel %= 6;
  if (sel < 2) {
    static const int ps[] = {2, 4, 6, 8};
    c->strategy = VS_STRAT_RANDOM;
    c->p_log2 = ps[(h >> 16) % 4];
    snprintf(sname, sn, "random_p%d", c->p_log2);
  } else if (sel < 4 || base_watch < 4) {
    c->strategy = VS_STRAT_PCT;
    c->pct_depth = 1 + (int)((h >> 16) % 5);
    c->pct_k = base_points ? base_points : 20000;
    snprintf(sname, sn, "pct_d%d", c->pct_depth);
  } else {
    c->strategy = VS_STRAT_PCT;
    c->targeted = 1;
    c->pct_depth = 1 + (int)((h >> 16) % 4);
    c->pct_k = base_watch;
    snprintf(sname, sn, "targeted_d%d", c->pct_depth);
  }
  if (c->tso) strncat(sname, "+tso", sn - strlen(sname) - 1);
}

static void long_cfg(vs_config_t* c) {
  c->stall_len = g_long_stall;
  c->stall_spins = (1ull << 26) + (1ull << 22);
  c->soft_budget = c->hard_budget = g_hard + 2 * g_long_stall;
  g_wall_limit = 60.0;  // a long run that is this slow (many hand-overs per poll) is given up as inconclusive
}

// JSON helpers
static void json_str(FILE* f, const char* s) {
  fputc('"', f);
  for (; *s; s++) {
    if (*s == '"' || *s == '\\')
      fprintf(f, "\\%c", *s);
    else if ((unsigned char)*s < 0x20)
      fprintf(f, " ");
    else
      fputc(*s, f);
  }
  fputc('"', f);
}

typedef struct agg {
  char name[32];
  uint64_t sum;
  uint64_t runs_with;
} agg_t;
static uint64_t tol_count, tol_pc[16];
static int n_tol_pc;
static agg_t labels[128];
static int n_labels;
static void agg_add(const char* name, uint64_t v) {
  for (int i = 0; i < n_labels; i++)
    if (!strcmp(labels[i].name, name)) {
      labels[i].sum += v;
      if (v) labels[i].runs_with++;
      return;
    }
  if (n_labels < 128) {
    strncpy(labels[n_labels].name, name, 31);
    labels[n_labels].sum = v;
    labels[n_labels].runs_with = v ? 1 : 0;
    n_labels++;
  }
}
static uint64_t res_label(const vs_result_t* r, const char* name) {
  for (int i = 0; i < r->n_labels; i++)
    if (!strcmp(r->label_name[i], name)) return r->label_val[i];
  return 0;
}

static void print_violation(FILE* f, const vs_result_t* r, const vs_config_t* c, int idx, const char* sname) {
  fprintf(f, "{\"kind\":");
  json_str(f, r->kind);
  fprintf(f, ",\"detail\":");
  json_str(f, r->detail);
  fprintf(f, ",\"sched_index\":%d,\"base_seed\":%llu,\"seed\":%llu,\"strategy\":", idx, (unsigned long long)g_base_seed, (unsigned long long)c->seed);
  json_str(f, sname);
  fprintf(f, ",\"tso\":%d,\"points\":%llu,\"decisions_overflow\":%d,\"decisions\":[", c->tso, (unsigned long long)r->points, r->decisions_overflow);
  for (uint32_t i = 0; i < r->n_decisions; i++) fprintf(f, "%s[%u,%u]", i ? "," : "", r->dec_point[i], r->dec_tid[i]);
  fprintf(f, "]}");
}

// delta-debug the decision list: keep the same violation kind
static int same_kind(const char* a, const char* b) { return !strcmp(a, b); }

static void minimise(vs_result_t* best, int tso, uint64_t seed, int max_trials) {
  uint32_t n = best->n_decisions;
  uint32_t* pts = malloc(sizeof(uint32_t) * (n + 1));
  uint8_t* tids = malloc(n + 1);
  memcpy(pts, best->dec_point, sizeof(uint32_t) * n);
  memcpy(tids, best->dec_tid, n);
  char kind[96];
  strncpy(kind, best->kind, 95);
  kind[95] = 0;
  uint32_t* tp = malloc(sizeof(uint32_t) * (n + 1));
  uint8_t* tt = malloc(n + 1);
  int trials = 0;
  uint32_t chunk = n / 2;
  vs_result_t* keep = malloc(sizeof *keep);
  memcpy(keep, best, sizeof *keep);
  while (chunk >= 1 && trials < max_trials && n > 0) {
    int progress = 0;
    for (uint32_t start = 0; start < n && trials < max_trials;) {
      uint32_t end = start + chunk > n ? n : start + chunk;
      uint32_t m = 0;
      for (uint32_t i = 0; i < n; i++)
        if (i < start || i >= end) {
          tp[m] = pts[i];
          tt[m] = tids[i];
          m++;
        }
      vs_config_t c;
      memset(&c, 0, sizeof c);
      c.seed = seed;
      c.strategy = VS_STRAT_REPLAY;
      c.tso = tso;
      c.soft_budget = g_soft;
      c.hard_budget = g_hard;
      c.n_replay = (int)m;
      c.replay_points = tp;
      c.replay_tids = tt;
      trials++;
      int st = run_one(&c);
      if (st == 2 && same_kind(shres->kind, kind)) {
        // keep the reduction; adopt the decisions the replay actually took
        memcpy(keep, shres, sizeof *keep);
        n = m;
        memcpy(pts, tp, sizeof(uint32_t) * m);
        memcpy(tids, tt, m);
        progress = 1;
      } else {
        start = end;
      }
    }
    if (!progress || chunk == 1) {
      if (chunk == 1) break;
    }
    chunk /= 2;
  }
  // final: re-run with the minimal list to record the canonical decisions
  memcpy(best, keep, sizeof *best);
  best->n_decisions = n;
  memcpy(best->dec_point, pts, sizeof(uint32_t) * n);
  memcpy(best->dec_tid, tids, n);
  free(pts);
  free(tids);
  free(tp);
  free(tt);
  free(keep);
}

static const harness_t* find_harness(const char* name) {
  for (int i = 0; all_harnesses[i]; i++)
    if (!strcmp(all_harnesses[i]->name, name)) return all_harnesses[i];
  return 0;
}

void rt_set_harness(const char* name) { H = find_harness(name); }

#ifndef RT_NO_MAIN
int main(int argc, char** argv) {
  if (argc < 2) {
    fprintf(stderr, "usage: runner_rt case.txt [--base-seed S] [--nsched N] [--tso 0|1|2] [--replay file --seed S] [--minimise] [--soft N] [--hard N]\n");
    return 2;
  }
  uint64_t base_seed = 1;
  int nsched = 32, tso_mode = 0, do_min = 0, stop_first = 1, check_replay = 0, replay_mismatch = 0, only_index = -1;
  const char* replay = 0;
  uint64_t replay_seed = 0;
  int replay_tso = 0;
  for (int i = 2; i < argc; i++) {
    if (!strcmp(argv[i], "--base-seed") && i + 1 < argc) base_seed = strtoull(argv[++i], 0, 10);
    else if (!strcmp(argv[i], "--nsched") && i + 1 < argc) nsched = atoi(argv[++i]);
    else if (!strcmp(argv[i], "--tso") && i + 1 < argc) tso_mode = atoi(argv[++i]);
    else if (!strcmp(argv[i], "--replay") && i + 1 < argc) replay = argv[++i];
    else if (!strcmp(argv[i], "--seed") && i + 1 < argc) replay_seed = strtoull(argv[++i], 0, 10);
    else if (!strcmp(argv[i], "--replay-tso") && i + 1 < argc) replay_tso = atoi(argv[++i]);
    else if (!strcmp(argv[i], "--minimise")) do_min = 1;
    else if (!strcmp(argv[i], "--all")) stop_first = 0;
    else if (!strcmp(argv[i], "--check-replay")) check_replay = 1;
    else if (!strcmp(argv[i], "--only") && i + 1 < argc) only_index = atoi(argv[++i]);
    else if (!strcmp(argv[i], "--soft") && i + 1 < argc) g_soft = strtoull(argv[++i], 0, 10);
    else if (!strcmp(argv[i], "--hard") && i + 1 < argc) g_hard = strtoull(argv[++i], 0, 10);
    else if (!strcmp(argv[i], "--wall") && i + 1 < argc) g_wall_limit = atof(argv[++i]);
    else if (!strcmp(argv[i], "--long-stall") && i + 1 < argc) g_long_stall = strtoull(argv[++i], 0, 10);
    else if (!strcmp(argv[i], "--no-tolerate")) rt_tolerate_known_reads = 0;
  }
  g_base_seed = base_seed;
  parse_case(argv[1]);
  H = find_harness(g_case.harness);
  if (!H) {
    fprintf(stderr, "unknown harness %s\n", g_case.harness);
    return 2;
  }
  shres = mmap(0, sizeof *shres, PROT_READ | PROT_WRITE, MAP_SHARED | MAP_ANONYMOUS, -1, 0);
  double t0 = now_s();

  if (replay) {
    char* txt = slurp(replay);
    int cap = 1 << 15, m = 0;
    uint32_t* pts = malloc(sizeof(uint32_t) * cap);
    uint8_t* tids = malloc(cap);
    char* save = 0;
    for (char* tok = strtok_r(txt, " \n\t,[]", &save); tok; tok = strtok_r(0, " \n\t,[]", &save)) {
      char* tok2 = strtok_r(0, " \n\t,[]", &save);
      if (!tok2 || m >= cap) break;
      pts[m] = (uint32_t)strtoul(tok, 0, 10);
      tids[m] = (uint8_t)atoi(tok2);
      m++;
    }
    vs_config_t c;
    memset(&c, 0, sizeof c);
    c.seed = replay_seed;
    c.strategy = VS_STRAT_REPLAY;
    c.tso = replay_tso;
    c.soft_budget = g_soft;
    c.hard_budget = g_hard + 2 * g_long_stall;
    if (g_long_stall) g_wall_limit = 120.0;
    c.n_replay = m;
    c.replay_points = pts;
    c.replay_tids = tids;
    int st = run_one(&c);
    printf("{\"harness\":\"%s\",\"mode\":\"replay\",\"status\":%d,\"executions\":1,\"violation\":", g_case.harness, st);
    if (st == 2)
      print_violation(stdout, shres, &c, -1, "replay");
    else
      printf("null");
    printf(",\"replay_diverged\":%llu,\"kind\":", (unsigned long long)res_label(shres, "replay_diverged"));
    json_str(stdout, shres->kind);
    printf("}\n");
    return st == 2 ? 1 : 0;
  }

  int execs = 0, nontrivial = 0, inconclusive = 0;
  uint64_t total_points = 0, total_switches = 0;
  uint64_t hashes[4096];
  int n_hashes = 0;
  uint64_t base_points = 0, base_watch = 0;
  int have_violation = 0;
  int expired_idx[256], n_expired = 0;
  uint64_t expired_score[256];
  vs_result_t* vres = malloc(sizeof *vres);
  vs_config_t vcfg;
  char vsname[48] = "";
  int vidx = -1;
  agg_t strat[32];
  int n_strat = 0;
  if (only_index >= 0 && nsched <= only_index) nsched = only_index + 1;
  for (int i = 0; i < nsched; i++) {
    if (only_index >= 0 && i != 0 && i != only_index) continue;  // schedule 0 supplies the length estimates the others are derived from
    vs_config_t c;
    char sname[48];
    derive_cfg(&c, base_seed, i, base_points, base_watch, tso_mode, sname, sizeof sname);
    if (g_long_stall && only_index >= 0 && i == only_index && c.stall_thread) {
      // long-stall run (--only i --long-stall N): the stall schedules hold a thread for at most 300000 scheduling points; this one
      // is run again with the thread held until the others have polled 2^26 + 2^22 times (at most N scheduling points; 10^9 points
      // are 10-25 s of real time) - what a bounded wait ("give up after 2^26 polls") needs to show itself
      long_cfg(&c);
      char t[48];
      snprintf(t, sizeof t, "long_%s", sname);
      strncpy(sname, t, sizeof sname - 1);
      sname[sizeof sname - 1] = 0;
      agg_add("long_stall_runs", 1);
    }
    int st = run_one(&c);
    execs++;
    total_points += shres->points;
    total_switches += shres->switches;
    if (i == 0) {
      base_points = shres->points;
      base_watch = res_label(shres, "watch_hits");
      for (int t = 0; t < VS_MAX_THREADS; t++) base_watch_t[t] = shres->watch_hits_t[t];
      for (int t = 0; t < VS_MAX_THREADS; t++) base_points_t[t] = shres->points_t[t];
    }
    int found = 0;
    for (int k = 0; k < n_strat; k++)
      if (!strcmp(strat[k].name, sname)) {
        strat[k].sum++;
        found = 1;
      }
    if (!found && n_strat < 32) {
      strncpy(strat[n_strat].name, sname, 31);
      strat[n_strat].name[31] = 0;
      strat[n_strat++].sum = 1;
    }
    for (int k = 0; k < shres->n_labels; k++) agg_add(shres->label_name[k], shres->label_val[k]);
    tol_count += shres->tolerated_count;
    if (shres->n_tolerated_pc && getenv("RT_TOL_DEBUG")) {
      fprintf(stderr, "sched %d:", i);
      for (int k = 0; k < shres->n_tolerated_pc; k++) fprintf(stderr, " 0x%llx", (unsigned long long)shres->tolerated_pc[k]);
      fprintf(stderr, "\n");
    }
    for (int k = 0; k < shres->n_tolerated_pc; k++) {
      int q = 0;
      while (q < n_tol_pc && tol_pc[q] != shres->tolerated_pc[k]) q++;
      if (q == n_tol_pc && q < 16) tol_pc[n_tol_pc++] = shres->tolerated_pc[k];
    }
    if (shres->tso_buffered) agg_add("tso_buffered", shres->tso_buffered);
    if (shres->tso_hidden_reads) agg_add("tso_hidden_reads", shres->tso_hidden_reads);
    if (st == 3) inconclusive++;
    // candidates for a long-stall run (see below): somebody was busy-waiting (cpu_relax) while a thread was held, or - thread-level
    // harnesses - the stall ran out while the others were still running
    if (!g_long_stall && st == 1 && c.stall_thread && n_expired < 256) {
      uint64_t sp = res_label(shres, "stall_spins");
      uint64_t sc = (sp >= 200 ? sp * 4 : 0) + (H->entry != 0 && res_label(shres, "stall_expired") ? c.stall_len / 1000 : 0);
      if (sc) {
        expired_idx[n_expired] = i;
        expired_score[n_expired++] = sc;
      }
    }
    if (res_label(shres, "nontrivial") > 0 && st != 3) {
      nontrivial++;
      int dup = 0;
      for (int k = 0; k < n_hashes; k++)
        if (hashes[k] == shres->trace_hash) dup = 1;
      if (!dup && n_hashes < 4096) hashes[n_hashes++] = shres->trace_hash;
    }
    if (check_replay && !shres->decisions_overflow) {
      // replay fidelity: the recorded decision list must reproduce the execution exactly
      vs_result_t* first = malloc(sizeof *first);
      memcpy(first, shres, sizeof *first);
      vs_config_t rc;
      memset(&rc, 0, sizeof rc);
      rc.seed = c.seed;
      rc.strategy = VS_STRAT_REPLAY;
      rc.tso = c.tso;
      rc.soft_budget = g_soft;
      rc.hard_budget = g_hard;
      rc.n_replay = (int)first->n_decisions;
      rc.replay_points = first->dec_point;
      rc.replay_tids = first->dec_tid;
      int st2 = run_one(&rc);
      if (st2 != st || shres->points != first->points || shres->trace_hash != first->trace_hash || strcmp(shres->kind, first->kind)) {
        replay_mismatch++;
        if (getenv("VS_DBG")) {
          uint32_t k = 0;
          while (k < first->n_decisions && k < shres->n_decisions && first->dec_point[k] == shres->dec_point[k] && first->dec_tid[k] == shres->dec_tid[k]) k++;
          fprintf(stderr, "  first divergence at decision %u of %u/%u: orig (%u,%u) replay (%u,%u); prev (%u,%u)\n", k, first->n_decisions, shres->n_decisions,
                  k < first->n_decisions ? first->dec_point[k] : 0, k < first->n_decisions ? first->dec_tid[k] : 0, k < shres->n_decisions ? shres->dec_point[k] : 0,
                  k < shres->n_decisions ? shres->dec_tid[k] : 0, k ? first->dec_point[k - 1] : 0, k ? first->dec_tid[k - 1] : 0);
        }
        fprintf(stderr, "replay mismatch: sched %d (%s) status %d/%d points %llu/%llu kind '%s'/'%s'\n", i, sname, st, st2,
                (unsigned long long)first->points, (unsigned long long)shres->points, first->kind, shres->kind);
      }
      memcpy(shres, first, sizeof *first);
      free(first);
    }
    if (st == 2 && !have_violation) {
      have_violation = 1;
      memcpy(vres, shres, sizeof *vres);
      vcfg = c;
      vidx = i;
      strncpy(vsname, sname, sizeof vsname - 1);
      if (stop_first) break;
    }
  }
  if (have_violation && do_min && !g_long_stall && !vres->decisions_overflow && strncmp(vres->kind, "kernel_thread_blocked", 21) != 0) {
    minimise(vres, vcfg.tso, vcfg.seed, 150);
  }
  printf("{\"harness\":\"%s\",\"executions\":%d,\"nontrivial\":%d,\"distinct_nontrivial\":%d,\"inconclusive\":%d,\"points\":%llu,\"switches\":%llu,\"wall_s\":%.3f,\"labels\":{",
         g_case.harness, execs, nontrivial, n_hashes, inconclusive, (unsigned long long)total_points, (unsigned long long)total_switches, now_s() - t0);
  for (int i = 0; i < n_labels; i++) printf("%s\"%s\":[%llu,%llu]", i ? "," : "", labels[i].name, (unsigned long long)labels[i].sum, (unsigned long long)labels[i].runs_with);
  printf("},\"strategies\":{");
  for (int i = 0; i < n_strat; i++) printf("%s\"%s\":%llu", i ? "," : "", strat[i].name, (unsigned long long)strat[i].sum);
  printf("},\"tolerated_freed_reads\":{\"count\":%llu,\"pcs\":[", (unsigned long long)tol_count);
  for (int i = 0; i < n_tol_pc; i++) printf("%s\"0x%llx\"", i ? "," : "", (unsigned long long)tol_pc[i]);
  printf("]},\"long_candidates\":[");
  for (int k = 0, out = 0; k < 3; k++) {
    int best = -1;
    for (int q = 0; q < n_expired; q++)
      if (expired_score[q] && (best < 0 || expired_score[q] > expired_score[best])) best = q;
    if (best < 0) break;
    printf("%s%d", out++ ? "," : "", expired_idx[best]);
    expired_score[best] = 0;
  }
  printf("],\"replay_mismatch\":%d,\"violation\":", replay_mismatch);
  if (have_violation)
    print_violation(stdout, vres, &vcfg, vidx, vsname);
  else
    printf("null");
  printf("}\n");
  return have_violation ? 1 : 0;
}
#endif
