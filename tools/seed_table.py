#!/usr/bin/env python3
"""Regenerate the table of seeded changes in DESIGN.md (between the SEED-TABLE markers) from seeded/*/meta.json."""
import glob, json, os, re
V = '/verif'
NOTES = {
    'C01-r1': 'superseded: the change re-opens the window that fix b763e2b closed (close under a waiter now reports EBADF and resets scratch); it no longer applies to the repaired tree',
    'C13-r2': 'the change is in hazard_pointer.c (comparator); it is caught by the C14 check (reclaimed_while_protected), not by the C13 one',
    'C02-r3': 'NOT caught, quick or thorough (17.6 M executions): see 8.8',
    'C20-r3': 'NOT caught, quick or thorough (10.4 M executions): see 8.8',
    'C01-r4': 'same change as C02-r3 (second agent, independently): NOT caught, see 8.8',
    'C03-r7': 'same change as C02-r3 / C01-r4 (third agent): NOT caught, see 8.8',
    'C06-r7': 'missed in round 7; caught since the long-stall runs of round 8 (the result shown is the re-run)',
    'C02-r6': 'NOT caught (bounded stall, nothing to observe under the virtual clock): see 8.8',
    'C03-r6': 'missed in round 6; caught since the long-stall runs of round 8 (the result shown is the re-run)',
}
rows = []
for d in sorted(glob.glob(V + '/seeded/*-r*'), key=lambda x: (x.split('-r')[1], x)):
    m = json.load(open(os.path.join(d, 'meta.json')))
    oc = m.get('our_checks', {})
    name = os.path.basename(d)
    files = [l[6:].strip().replace('include/', '').replace('src/', '') for l in open(os.path.join(d, 'patch.diff')) if l.startswith('+++ b/')]
    caught = 'yes' if oc.get('caught_by_quick_check') else 'no'
    if m.get('caught_by_other_check'):
        caught = 'by ' + m['caught_by_other_check']
    rows.append('| %s | %s | %s | %s | %s | %s |' % (name, ', '.join(files), (m.get('what_it_needs') or '').replace('\n', ' ').replace('|', '/'), caught,
                                                    ', '.join(oc.get('violation_kinds') or []), NOTES.get(name, m.get('note', ''))))
table = '\n'.join(['| seed | file | what it needs to manifest | own quick check | violation kinds | note |', '|---|---|---|---|---|---|'] + rows)
p = V + '/DESIGN.md'
s = open(p).read()
s = re.sub(r'<!-- SEED-TABLE-BEGIN -->.*<!-- SEED-TABLE-END -->', '<!-- SEED-TABLE-BEGIN -->\n' + table + '\n<!-- SEED-TABLE-END -->', s, flags=re.S)
open(p, 'w').write(s)
print(len(rows), 'rows')
