// C08: shimmed descriptor I/O on the fiber runtime.  Real kernel descriptors (AF_UNIX stream
// socketpairs, pipes, AF_UNIX listeners), virtual epoll timing.
#include <errno.h>
#include <fcntl.h>
#include <limits.h>
#include <signal.h>
#include <stdarg.h>
#include <stdio.h>
#include <string.h>
#include <sys/ioctl.h>
#include <sys/resource.h>
#include <sys/socket.h>
#include <sys/syscall.h>
#include <sys/uio.h>
#include <sys/un.h>
#include <unistd.h>

#include "fiber_manager.h"
#include "fiber_event.h"
#include "rt.h"

extern void rt_work(int idx, int n);

#define NSTR 4
enum { ST_SOCKETPAIR = 0, ST_PIPE = 1 };
typedef struct stream {
  int type;
  int fd[2];       // socketpair: both ends; pipe: fd[0] read end, fd[1] write end
  int nonblock[2]; // harness view: descriptor put into non-blocking mode by the program
  int closed[2];
} stream_t;
static stream_t str[NSTR];
static int nstr;
// direction d of stream s: writer uses wfd(s,d), reader rfd(s,d)
static int roles_total[NSTR][2], roles_done[NSTR][2];
static int wfd(int s, int d) { return str[s].type == ST_PIPE ? str[s].fd[1] : str[s].fd[d ? 1 : 0]; }
static int rfd(int s, int d) { return str[s].type == ST_PIPE ? str[s].fd[0] : str[s].fd[d ? 0 : 1]; }
static int wend(int s, int d) { return str[s].type == ST_PIPE ? 1 : (d ? 1 : 0); }
static int rend(int s, int d) { return str[s].type == ST_PIPE ? 0 : (d ? 0 : 1); }

// ghost per (stream, direction)
static long g_written[NSTR][2], g_read[NSTR][2];
static int g_eof_seen[NSTR][2], g_wclosed[NSTR][2];
static int io_suspended_calls, io_partial, io_eagain_nb, io_badfd, io_close_under_waiter, io_two_waiters;
static int waiting_on_fd[MAX_FIBERS];  // fd a fiber is currently inside a (possibly blocking) shim call on, +1

static inline unsigned char pat(int s, int d, long o) { return (unsigned char)((o * 131 + s * 17 + d * 101 + (o >> 8)) & 0xff); }

GHOST static void gio_fail(const char* kind, const char* fmt, ...) {
  char buf[400];
  va_list ap;
  va_start(ap, fmt);
  vsnprintf(buf, sizeof buf, fmt, ap);
  va_end(ap);
  vs_violation(kind, "%s", buf);
}
static int io_echopairs;
static volatile int io_flag[8];
GHOST static void g_bump(int* c) { (*c)++; }
// one role (reader or writer of one direction) on an end of stream s is finished; the last one closes the descriptor
static void role_done(int s, int end, int fd) {
  roles_done[s][end]++;
  if (roles_done[s][end] >= roles_total[s][end] && !str[s].closed[end]) {
    str[s].closed[end] = 1;
    close(fd);
  }
}

static void io_setup(void) {
  signal(SIGPIPE, SIG_IGN);
  nstr = (int)cfg_get("nstream", 0);
  // cfg fd_floor: the program already holds that many descriptors (the streams below get numbers above it)
  long floor_ = cfg_get("fd_floor", 0);
  if (floor_ > 0 && floor_ < 600)
    for (;;) {
      int f = (int)syscall(SYS_open, "/dev/null", O_RDONLY | O_CLOEXEC);
      if (f < 0 || f >= floor_) {
        if (f >= 0) syscall(SYS_close, f);
        break;
      }
    }
  for (int i = 0; i < g_case.n_fibers; i++)
    for (int j = 0; j < g_case.n_ops[i]; j++) {
      op_t* o = &g_case.ops[i][j];
      int s = (o->a >> 1) % NSTR, d = o->a & 1;
      if (!strcmp(o->name, "wclose")) roles_total[s][d ? 1 : 0]++;   // fixed up for pipes below
      if (!strcmp(o->name, "rdeof")) roles_total[s][d ? 0 : 1]++;
    }
  for (int s = 0; s < nstr && s < NSTR; s++) {
    char k[16] = "stream_type0";
    k[11] = (char)('0' + s);
    str[s].type = (int)cfg_get(k, 0);
    if (str[s].type == ST_PIPE) {
      roles_total[s][0] = roles_total[s][1] = 1;  // read end, write end
      if (pipe(str[s].fd)) vs_violation("engine_limit", "pipe failed");
    } else {
      if (socketpair(AF_UNIX, SOCK_STREAM, 0, str[s].fd)) vs_violation("engine_limit", "socketpair failed");
      int sz = (int)cfg_get("sndbuf", 0);
      if (sz) {
        setsockopt(str[s].fd[0], SOL_SOCKET, SO_SNDBUF, &sz, sizeof sz);
        setsockopt(str[s].fd[1], SOL_SOCKET, SO_SNDBUF, &sz, sizeof sz);
      }
    }
  }
}

// one shimmed write-type call
static ssize_t do_write_call(int kind, int fd, const unsigned char* buf, size_t n, int flags) {
  switch (kind) {
    case 0: return write(fd, buf, n);
    case 1: {
      struct iovec iov[3];
      size_t a = n / 3, b = n / 3;
      iov[0].iov_base = (void*)buf;
      iov[0].iov_len = a;
      iov[1].iov_base = (void*)(buf + a);
      iov[1].iov_len = b;
      iov[2].iov_base = (void*)(buf + a + b);
      iov[2].iov_len = n - a - b;
      return writev(fd, iov, 3);
    }
    case 2: return send(fd, buf, n, flags);
    case 3: return sendto(fd, buf, n, flags, 0, 0);
    default: {
      struct iovec iov[2] = {{(void*)buf, n / 2}, {(void*)(buf + n / 2), n - n / 2}};
      struct msghdr m;
      memset(&m, 0, sizeof m);
      m.msg_iov = iov;
      m.msg_iovlen = 2;
      return sendmsg(fd, &m, flags);
    }
  }
}
static ssize_t do_read_call(int kind, int fd, unsigned char* buf, size_t n, int flags) {
  switch (kind) {
    case 0: return read(fd, buf, n);
    case 1: {
      struct iovec iov[2] = {{buf, n / 2}, {buf + n / 2, n - n / 2}};
      return readv(fd, iov, 2);
    }
    case 2: return recv(fd, buf, n, flags);
    case 3: return recvfrom(fd, buf, n, flags, 0, 0);
    default: {
      struct iovec iov[2] = {{buf, n / 2}, {buf + n / 2, n - n / 2}};
      struct msghdr m;
      memset(&m, 0, sizeof m);
      m.msg_iov = iov;
      m.msg_iovlen = 2;
      return recvmsg(fd, &m, flags);
    }
  }
}

GHOST static void fill_pattern(unsigned char* buf, int s, int d, long base, int len) {
  for (int i = 0; i < len; i++) buf[i] = pat(s, d, base + i);
}
GHOST static long verify_pattern(const unsigned char* buf, int s, int d, long base, long len) {
  for (long i = 0; i < len; i++)
    if (buf[i] != pat(s, d, base + i)) return i;
  return -1;
}
static int chunk_of(int code, long left) {
  static const int sizes[] = {1, 7, 64, 500, 4096, 70000, 300000, 3};
  int c = sizes[code & 7];
  return (int)(c > left ? left : c);
}

static unsigned char iobuf[MAX_FIBERS][300000];

static int io_do_op(int idx, op_t* op) {
  // "iowr"/"iord": the same ops under names that do not collide with the rwlock harness in mixed programs
  if (!strcmp(op->name, "iowr") || !strcmp(op->name, "iord")) {
    op_t alias = *op;
    strcpy(alias.name, op->name + 2);
    return io_do_op(idx, &alias);
  }
  if (!strcmp(op->name, "wr") || !strcmp(op->name, "rd")) {
    int s = (op->a >> 1) % NSTR, d = op->a & 1;
    long n = op->b;
    int kind = op->c & 15, chunk = (op->c >> 4) & 7, dontwait = (op->c >> 12) & 1;
    int is_pipe = str[s].type == ST_PIPE;
    if (is_pipe && kind >= 2) kind = kind & 1;  // send*/recv* need a socket
    if (is_pipe || kind < 2) dontwait = 0;  // MSG_DONTWAIT exists only for send*/recv*
    int writing = op->name[0] == 'w';
    int fd = writing ? wfd(s, d) : rfd(s, d);
    int end = writing ? wend(s, d) : rend(s, d);
    long done = 0;
    while (done < n) {
      int len = chunk_of(chunk, n - done);
      long base = writing ? g_written[s][d] : g_read[s][d];
      if (writing) fill_pattern(iobuf[idx], s, d, base, len);
      int nonblocking = dontwait || str[s].nonblock[end];
      int before = g_fiber_switches(idx);
      waiting_on_fd[idx] = fd + 1;
      if (nonblocking) g_nb_enter(idx);
      errno = 0;
      ssize_t r = writing ? do_write_call(kind, fd, iobuf[idx], (size_t)len, dontwait ? MSG_DONTWAIT : 0)
                          : do_read_call(kind, fd, iobuf[idx], (size_t)len, dontwait ? MSG_DONTWAIT : 0);
      int e = errno;
      if (nonblocking) g_nb_exit(idx);
      waiting_on_fd[idx] = 0;
      if (g_fiber_switches(idx) != before) g_bump(&io_suspended_calls);
      if (r < 0) {
        if (str[s].closed[end]) return 1;  // descriptor was closed under us by the program: an error return is what POSIX gives
        if (e == EAGAIN || e == EWOULDBLOCK) {
          if (!nonblocking)
            gio_fail("eagain_on_blocking_fd", "fiber %d: %s on blocking-mode descriptor %d (stream %d) failed with EAGAIN", idx, op->name, fd, s);
          g_bump(&io_eagain_nb);
          fiber_yield();
          continue;
        }
        if (str[s].closed[end]) return 1;  // descriptor was closed under us by the program: an error return is what POSIX gives
        if (writing && (e == EPIPE || e == ECONNRESET) && str[s].closed[rend(s, d)]) return 1;  // the program closed the reading end
        gio_fail("stream_mismatch", "fiber %d: %s on descriptor %d (stream %d) failed: errno %d", idx, op->name, fd, s, e);
      }
      if (r == 0) {
        if (writing) gio_fail("stream_mismatch", "fiber %d: write-type call of %d bytes returned 0", idx, len);
        // EOF
        if (!g_wclosed[s][d]) gio_fail("stream_mismatch", "fiber %d: read on stream %d returned EOF/0 although the writer has not closed", idx, s);
        if (g_read[s][d] != g_written[s][d])
          gio_fail("stream_mismatch", "stream %d dir %d: EOF after %ld bytes but %ld were accepted from the writer", s, d, g_read[s][d], g_written[s][d]);
        g_eof_seen[s][d] = 1;
        // a finished reader closes its descriptor (a hung-up descriptor left registered keeps the poller busy for ever)
        role_done(s, end, fd);
        return 1;
      }
      if (r > len) gio_fail("stream_mismatch", "fiber %d: call of %d bytes reports %zd transferred", idx, len, r);
      if (r < len) g_bump(&io_partial);
      if (writing) {
        g_written[s][d] += r;
      } else {
        long bad = verify_pattern(iobuf[idx], s, d, base, (long)r);
        if (bad >= 0)
          gio_fail("stream_mismatch", "stream %d dir %d: byte at offset %ld is 0x%02x, expected 0x%02x (lost, duplicated or reordered data)", s, d, base + bad,
                   iobuf[idx][bad], pat(s, d, base + bad));
        g_read[s][d] += r;
      }
      done += r;
      vs_program_advanced();
    }
    return 1;
  }
  if (!strcmp(op->name, "waitnone")) {
    // the public wait entry point called directly with neither FIBER_POLL_IN nor FIBER_POLL_OUT: nothing can make such a wait
    // ready, it ends when the descriptor is closed by another fiber (or at once with an error, if the library rejects the mask)
    int s = (op->a >> 1) % NSTR, d = op->a & 1;
    int fd = rfd(s, d);
    waiting_on_fd[idx] = fd + 1;
    (void)fiber_wait_for_event(fd, (uint32_t)op->b);
    waiting_on_fd[idx] = 0;
    while (!str[s].closed[rend(s, d)]) fiber_yield();  // either way the descriptor is left alone until its owner has closed it
    return 1;
  }
  if (!strcmp(op->name, "wrfill")) {
    // fill the send side of direction a: non-waiting sends until the kernel says it is full (the peer is not reading yet)
    int s = (op->a >> 1) % NSTR, d = op->a & 1;
    int fd = wfd(s, d);
    for (;;) {
      int len = 4096;
      fill_pattern(iobuf[idx], s, d, g_written[s][d], len);
      g_nb_enter(idx);
      errno = 0;
      ssize_t r = send(fd, iobuf[idx], (size_t)len, MSG_DONTWAIT);
      int e = errno;
      g_nb_exit(idx);
      if (r < 0) {
        if (e == EAGAIN || e == EWOULDBLOCK) break;
        gio_fail("stream_mismatch", "fiber %d: send(MSG_DONTWAIT) on descriptor %d failed: errno %d", idx, fd, e);
      }
      g_written[s][d] += r;
      if (g_written[s][d] > (8 << 20)) gio_fail("engine_limit", "send side of descriptor %d never fills", fd);
    }
    return 1;
  }
  if (!strcmp(op->name, "setflag")) {
    io_flag[op->a & 7] = 1;
    vs_program_advanced();
    return 1;
  }
  if (!strcmp(op->name, "waitflag")) {
    while (!io_flag[op->a & 7]) fiber_yield();
    return 1;
  }
  if (!strcmp(op->name, "rdeof")) {
    // read until EOF (the writer closes at the end): terminates for every legal short-transfer pattern
    op_t sub = *op;
    strcpy(sub.name, "rd");
    sub.b = 1 << 30;
    return io_do_op(idx, &sub);
  }
  if (!strcmp(op->name, "wclose")) {
    int s = (op->a >> 1) % NSTR, d = op->a & 1;
    int end = wend(s, d);
    int fd = wfd(s, d);
    g_wclosed[s][d] = 1;
    vs_drain();  // harness bookkeeping must be visible before the system call takes effect (TSO mode buffers plain stores)
    // a socketpair end may also carry the reader of the other direction: the writer half-closes,
    // the descriptor itself is closed when every role on it is finished
    if (str[s].type != ST_PIPE) shutdown(fd, SHUT_WR);
    role_done(s, end, fd);
    return 1;
  }
  if (!strcmp(op->name, "rclose")) {
    // close the descriptor a reader may be blocked on: the reader must be resumed (with an error)
    int s = (op->a >> 1) % NSTR, d = op->a & 1;
    int end = rend(s, d);
    str[s].closed[end] = 1;
    for (int i = 0; i < g_case.n_fibers; i++)
      if (i != idx && waiting_on_fd[i] == rfd(s, d) + 1) g_bump(&io_close_under_waiter);
    vs_drain();
    close(rfd(s, d));
    return 1;
  }
  if (!strcmp(op->name, "echopair")) {
    // a fresh socketpair (the kernel hands out the lowest free numbers: typically the ones a stream of this program has just
    // given back), a bytes written into one end and read back from the other through the shims, both ends closed again
    int p[2];
    if (socketpair(AF_UNIX, SOCK_STREAM, 0, p)) gio_fail("badfd_result", "socketpair failed, errno %d", errno);
    unsigned char out[64], in[64];
    int n = op->a > 0 && op->a <= 64 ? op->a : 1;
    for (int i = 0; i < n; i++) out[i] = (unsigned char)(idx * 31 + i * 7 + 1);
    ssize_t w = write(p[1], out, (size_t)n);
    if (w != n) gio_fail("stream_mismatch", "fiber %d: write of %d bytes to a fresh socketpair returned %zd (errno %d)", idx, n, w, errno);
    int got = 0;
    while (got < n) {
      ssize_t r = read(p[0], in + got, (size_t)(n - got));
      if (r <= 0) gio_fail("stream_mismatch", "fiber %d: read on a fresh socketpair returned %zd (errno %d) with %d of %d bytes outstanding", idx, r, errno, n - got, n);
      got += (int)r;
    }
    if (memcmp(out, in, (size_t)n)) gio_fail("stream_mismatch", "fiber %d: fresh socketpair returned other bytes than were written", idx);
    close(p[0]);
    close(p[1]);
    g_bump(&io_echopairs);
    return 1;
  }
  if (!strcmp(op->name, "nbmode")) {
    // a: stream/dir (reader end if b==0, writer end if b==1), c: 1 fcntl(O_NONBLOCK) 2 ioctl(FIONBIO,1) 3 ioctl(FIONBIO,0) 4 fcntl(F_SETFL,0)
    int s = (op->a >> 1) % NSTR, d = op->a & 1;
    int fd = op->b ? wfd(s, d) : rfd(s, d);
    int end = op->b ? wend(s, d) : rend(s, d);
    int r = 0, on = 1, off = 0;
    switch (op->c) {
      case 1: r = fcntl(fd, F_SETFL, O_NONBLOCK); str[s].nonblock[end] = 1; break;
      case 2: r = ioctl(fd, FIONBIO, &on); str[s].nonblock[end] = 1; break;
      case 3: r = ioctl(fd, FIONBIO, &off); str[s].nonblock[end] = 0; break;
      default: r = fcntl(fd, F_SETFL, 0); str[s].nonblock[end] = 0; break;
    }
    if (r != 0) gio_fail("badfd_result", "mode change %d on valid descriptor %d failed (%d, errno %d)", op->c, fd, r, errno);
    return 1;
  }
  if (!strcmp(op->name, "badfd")) {
    // a: which shim, b: which bad descriptor.  Differential oracle: the raw system call
    struct rlimit rl;
    getrlimit(RLIMIT_NOFILE, &rl);
    int bad;
    switch (op->b) {
      case 0: bad = -1; break;
      case 1: {
        // closed, in range: a high number of our own so that no other fiber's descriptor can take it meanwhile
        int p[2];
        if (syscall(SYS_pipe2, p, 0)) return 1;
        bad = 700 + idx;
        syscall(SYS_dup2, p[0], bad);
        syscall(SYS_close, p[0]);
        syscall(SYS_close, p[1]);
        syscall(SYS_close, bad);
        break;
      }
      case 2: bad = (int)rl.rlim_max - 1; break;
      case 3: bad = (int)rl.rlim_max; break;
      case 4: bad = INT_MAX; break;
      default: bad = -7; break;
    }
    unsigned char b[8] = {0};
    long raw, rawerr;
    ssize_t got;
    int goterr;
    g_bump(&io_badfd);
    g_nb_enter(idx);
    errno = 0;
    switch (op->a) {
      case 0: got = read(bad, b, 4); goterr = errno; raw = syscall(SYS_read, bad, b, 4); break;
      case 1: got = write(bad, b, 4); goterr = errno; raw = syscall(SYS_write, bad, b, 4); break;
      case 2: got = recv(bad, b, 4, 0); goterr = errno; raw = syscall(SYS_recvfrom, bad, b, 4, 0, 0, 0); break;
      case 3: got = send(bad, b, 4, 0); goterr = errno; raw = syscall(SYS_sendto, bad, b, 4, 0, 0, 0); break;
      case 4: got = fcntl(bad, F_SETFL, O_NONBLOCK); goterr = errno; raw = syscall(SYS_fcntl, bad, F_SETFL, O_NONBLOCK); break;
      case 5: { int on = 1; got = ioctl(bad, FIONBIO, &on); goterr = errno; raw = syscall(SYS_ioctl, bad, FIONBIO, &on); break; }
      case 6: got = close(bad); goterr = errno; raw = syscall(SYS_close, bad); break;
      case 7: got = accept(bad, 0, 0); goterr = errno; raw = syscall(SYS_accept, bad, 0, 0); break;
      case 8: { struct iovec iov = {b, 4}; got = readv(bad, &iov, 1); goterr = errno; raw = syscall(SYS_readv, bad, &iov, 1); break; }
      case 9: { struct iovec iov = {b, 4}; got = writev(bad, &iov, 1); goterr = errno; raw = syscall(SYS_writev, bad, &iov, 1); break; }
      default: got = fcntl(bad, F_GETFL, 0); goterr = errno; raw = syscall(SYS_fcntl, bad, F_GETFL, 0); break;
    }
    rawerr = errno;
    g_nb_exit(idx);
    if (raw != -1) return 1;  // the raw call did not fail: not an invalid-descriptor case after all
    if (got != -1 || goterr != rawerr)
      gio_fail("badfd_result", "shim %d on invalid descriptor %d returned %zd/errno %d, the plain system call returns -1/errno %ld", op->a, bad, got, goterr, rawerr);
    return 1;
  }
  return 0;
}

// ---- listener / accept / connect --------------------------------------------------------------
static int lfd = -1;
static volatile int listen_ready;
static int listener_nb;
static struct sockaddr_un laddr;
static int acc_ok, conn_ok;

static int net_do_op(int idx, op_t* op) {
  if (!strcmp(op->name, "listen")) {
    lfd = socket(AF_UNIX, SOCK_STREAM, 0);
    memset(&laddr, 0, sizeof laddr);
    laddr.sun_family = AF_UNIX;
    // abstract namespace: no file system object, unique per child
    snprintf(laddr.sun_path + 1, sizeof laddr.sun_path - 1, "verif-io-%d", (int)getpid());
    if (bind(lfd, (struct sockaddr*)&laddr, sizeof laddr) || listen(lfd, 8)) vs_violation("engine_limit", "bind/listen failed errno %d", errno);
    // a: 1/2 = the application polls its listener: non-blocking mode through fcntl / ioctl (accepted sockets are ordinary blocking ones)
    if (op->a) {
      int on = 1;
      if ((op->a == 1 ? fcntl(lfd, F_SETFL, O_NONBLOCK) : ioctl(lfd, FIONBIO, &on)) != 0) gio_fail("badfd_result", "mode change on the listener failed, errno %d", errno);
      listener_nb = 1;
    }
    listen_ready = 1;
    return 1;
  }
  if (!strcmp(op->name, "accept")) {
    while (!listen_ready) fiber_yield();
    for (int k = 0; k < op->a; k++) {
      int before = g_fiber_switches(idx);
      waiting_on_fd[idx] = lfd + 1;
      int c;
      int e;
      for (;;) {
        if (listener_nb) g_nb_enter(idx);
        c = accept(lfd, 0, 0);
        e = errno;
        if (listener_nb) g_nb_exit(idx);
        if (c >= 0 || !listener_nb || (e != EAGAIN && e != EWOULDBLOCK)) break;
        g_bump(&io_eagain_nb);
        fiber_yield();
      }
      waiting_on_fd[idx] = 0;
      if (g_fiber_switches(idx) != before && !listener_nb) g_bump(&io_suspended_calls);
      if (c < 0)
        gio_fail(e == EAGAIN || e == EWOULDBLOCK ? "eagain_on_blocking_fd" : "stream_mismatch", "fiber %d: accept on blocking listener failed with errno %d%s", idx, e,
                 e == EAGAIN ? " (EAGAIN)" : "");
      // one byte each way proves the accepted socket is set up for fiber I/O
      unsigned char b = 0;
      if (read(c, &b, 1) != 1 || b != 0x5a) gio_fail("stream_mismatch", "fiber %d: accepted socket: bad greeting", idx);
      b = 0xa5;
      if (write(c, &b, 1) != 1) gio_fail("stream_mismatch", "fiber %d: accepted socket: write failed", idx);
      close(c);
      g_bump(&acc_ok);
    }
    return 1;
  }
  if (!strcmp(op->name, "connect")) {
    while (!listen_ready) fiber_yield();
    for (int k = 0; k < op->a; k++) {
      int c = socket(AF_UNIX, SOCK_STREAM, 0);
      if (connect(c, (struct sockaddr*)&laddr, sizeof laddr)) gio_fail("stream_mismatch", "fiber %d: connect failed errno %d", idx, errno);
      unsigned char b = 0x5a;
      if (write(c, &b, 1) != 1) gio_fail("stream_mismatch", "fiber %d: connected socket: write failed", idx);
      if (read(c, &b, 1) != 1 || b != 0xa5) gio_fail("stream_mismatch", "fiber %d: connected socket: bad reply", idx);
      close(c);
      g_bump(&conn_ok);
      for (int i = 0; i < op->b; i++) fiber_yield();
    }
    return 1;
  }
  return 0;
}

static int io_dispatch(int idx, op_t* op) { return io_do_op(idx, op) || net_do_op(idx, op); }

GHOST static void io_final(void) {
  vs_rt_enter();
  if (cfg_get("nstream", 0) || lfd >= 0 || io_badfd) {
    for (int s = 0; s < nstr; s++)
      for (int d = 0; d < 2; d++)
        if (g_eof_seen[s][d] && g_read[s][d] != g_written[s][d])
          vs_violation("stream_mismatch", "stream %d dir %d: %ld bytes accepted, %ld delivered", s, d, g_written[s][d], g_read[s][d]);
    vs_label_add("io_suspended_calls", (uint64_t)io_suspended_calls);
    vs_label_add("io_partial_transfers", (uint64_t)io_partial);
    vs_label_add("io_eagain_nonblocking", (uint64_t)io_eagain_nb);
    vs_label_add("io_badfd_calls", (uint64_t)io_badfd);
    vs_label_add("io_close_under_waiter", (uint64_t)io_close_under_waiter);
    vs_label_add("io_accepts", (uint64_t)acc_ok);
    if (io_suspended_calls > 0 || io_badfd > 0 || io_eagain_nb > 0) rt_nontrivial("io");
  }
  vs_rt_exit();
}
const harness_t h_io = {"io", io_setup, io_dispatch, 0, io_final, 0};
