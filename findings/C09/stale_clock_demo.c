#include <stdio.h>
#include <time.h>
#include <unistd.h>
#include "fiber_manager.h"
static double now(){ struct timespec ts; clock_gettime(CLOCK_MONOTONIC,&ts); return ts.tv_sec+ts.tv_nsec*1e-9; }
int main(){ fiber_manager_init(1);
  usleep(1000);               /* make sure the event system runs once */
  double t0=now(); volatile unsigned long x=0; while(now()-t0<1.0) x++;   /* busy for 1 s: 200 ticks pile up unread */
  double t1=now(); usleep(100000); double t2=now();
  printf("requested 100 ms after a 1 s busy period, slept %.1f ms\n",(t2-t1)*1e3);
  t1=now(); usleep(300000); t2=now();
  printf("requested 300 ms with no backlog, slept %.1f ms\n",(t2-t1)*1e3);
  return 0; }
