// lin.c - small-history linearizability checker (Wing & Gong search with
// memoisation) over pluggable sequential models, plus the history recorder.
// Uninstrumented.
#include "lin.h"

#include <stdio.h>
#include <stdlib.h>
#include <string.h>

#include "vsched.h"

static hop_t hist[LIN_MAX_OPS];
static int nhist;
static uint64_t clk;

void lin_reset(void) {
  nhist = 0;
  clk = 0;
}
int lin_count(void) { return nhist; }
hop_t* lin_ops(void) { return hist; }

int lin_begin(int thread, int kind, long arg) {
  if (nhist >= LIN_MAX_OPS) vs_violation("engine_limit", "history too long");
  hop_t* o = &hist[nhist];
  o->thread = thread;
  o->kind = kind;
  o->arg = arg;
  o->res = 0;
  o->inv = ++clk;
  o->resp = 0;
  o->excused = 0;
  return nhist++;
}
void lin_end(int id, int kind, long res) {
  vs_drain();  // TSO mode: an operation has responded when its stores are globally visible
  hist[id].kind = kind;
  hist[id].res = res;
  hist[id].resp = ++clk;
}

// ---------------------------------------------------------------------------
// sequential models.  State: a sequence of values.
typedef struct mstate {
  int n;
  long v[64];
} mstate_t;

static int cap_limit;

// returns 1 if op is legal in state s (and applies it)
static int apply_model(int model, mstate_t* s, const hop_t* o) {
  switch (o->kind) {
    case OP_PUSH:
      if (cap_limit && s->n >= cap_limit) return 0;
      s->v[s->n++] = o->arg;
      return 1;
    case OP_PUSH_FAIL:
      if (o->excused) return 1;
      return cap_limit && s->n >= cap_limit;
    case OP_POP:
      if (s->n == 0) return 0;
      if (model == MODEL_LIFO) {
        if (s->v[s->n - 1] != o->res) return 0;
        s->n--;
        return 1;
      }
      if (s->v[0] != o->res) return 0;
      memmove(&s->v[0], &s->v[1], sizeof(long) * (size_t)(s->n - 1));
      s->n--;
      return 1;
    case OP_POP_EMPTY:
      if (o->excused) return 1;
      return s->n == 0;
    case OP_NOOP:
      return 1;
    case OP_FLUSH_LIFO:
    case OP_FLUSH_FIFO: {
      // o->res = number of values returned, values in o->vals (order as returned)
      if (o->nvals != s->n) return 0;
      for (int i = 0; i < s->n; i++) {
        long expect = o->kind == OP_FLUSH_LIFO ? s->v[s->n - 1 - i] : s->v[i];
        if (o->vals[i] != expect) return 0;
      }
      s->n = 0;
      return 1;
    }
  }
  return 0;
}

// memo: (done mask, state hash) -> visited
#define MEMO_SIZE (1 << 16)
static struct {
  uint64_t mask, sh;
  uint32_t used;  // generation stamp
} memo[MEMO_SIZE];
static uint32_t memo_gen;
static int memo_full;

static uint64_t state_hash(const mstate_t* s) {
  uint64_t h = 1469598103934665603ull ^ (uint64_t)s->n;
  for (int i = 0; i < s->n; i++) h = (h ^ (uint64_t)s->v[i]) * 1099511628211ull;
  return h;
}
static int memo_seen(uint64_t mask, uint64_t sh) {
  uint64_t k = (mask * 0x9E3779B97F4A7C15ull) ^ sh;
  for (int p = 0; p < 16; p++) {
    size_t i = (k + (uint64_t)p) & (MEMO_SIZE - 1);
    if (memo[i].used != memo_gen) {
      memo[i].used = memo_gen;
      memo[i].mask = mask;
      memo[i].sh = sh;
      return 0;
    }
    if (memo[i].mask == mask && memo[i].sh == sh) return 1;
  }
  memo_full = 1;
  return 0;
}

static int n_ops;
static long search_steps;
static int search(int model, uint64_t done, mstate_t* s) {
  if (done == (n_ops == 64 ? ~0ull : ((1ull << n_ops) - 1))) return 1;
  if (++search_steps > 3000000) return -1;
  if (memo_seen(done, state_hash(s))) return 0;
  // minimal response time among pending ops: an op can be linearised next only
  // if it was invoked before every pending op's response
  uint64_t min_resp = ~0ull;
  for (int i = 0; i < n_ops; i++)
    if (!(done & (1ull << i)) && hist[i].resp < min_resp) min_resp = hist[i].resp;
  for (int i = 0; i < n_ops; i++) {
    if (done & (1ull << i)) continue;
    if (hist[i].inv > min_resp) continue;
    mstate_t t;
    t.n = s->n;
    memcpy(t.v, s->v, sizeof(long) * (size_t)s->n);
    if (!apply_model(model, &t, &hist[i])) continue;
    int r = search(model, done | (1ull << i), &t);
    if (r) return r;
  }
  return 0;
}

// returns 1 linearizable, 0 not, -1 gave up (history too long / budget)
int lin_check(int model, int capacity, int excuse_rule) {
  n_ops = nhist;
  if (n_ops > 62) return -1;
  // operations that never responded are treated as responding at infinity
  for (int i = 0; i < n_ops; i++)
    if (!hist[i].resp) hist[i].resp = ~0ull - 1;
  // excuses
  for (int i = 0; i < n_ops; i++) {
    hop_t* o = &hist[i];
    o->excused = 0;
    if (o->kind != OP_POP_EMPTY && o->kind != OP_PUSH_FAIL) continue;
    for (int j = 0; j < n_ops; j++) {
      if (j == i) continue;
      hop_t* p = &hist[j];
      int overlap = p->inv < o->resp && o->inv < p->resp;
      if (!overlap) continue;
      if (excuse_rule == EXCUSE_ANY_OVERLAP) o->excused = 1;
      if (excuse_rule == EXCUSE_PUSH_OVERLAP && (p->kind == OP_PUSH || p->kind == OP_PUSH_FAIL) && o->kind == OP_POP_EMPTY) o->excused = 1;
    }
  }
  cap_limit = capacity;
  if (++memo_gen == 0) {
    memset(memo, 0, sizeof memo);
    memo_gen = 1;
  }
  memo_full = 0;
  search_steps = 0;
  mstate_t s;
  s.n = 0;
  int r = search(model, 0, &s);
  if (r == 0 && memo_full) return -1;
  return r;
}

void lin_describe(char* buf, size_t n) {
  size_t o = 0;
  static const char* names[] = {"?", "push", "push_fail", "pop", "pop_empty", "noop", "flush_lifo", "flush_fifo"};
  for (int i = 0; i < nhist && o + 48 < n; i++) {
    hop_t* h = &hist[i];
    o += (size_t)snprintf(buf + o, n - o, "T%d:%s(%ld)->%ld[%llu,%llu] ", h->thread, names[h->kind], h->arg, h->res, (unsigned long long)h->inv,
                          (unsigned long long)(h->resp > (1ull << 60) ? 0 : h->resp));
  }
}
