// C10 yield fairness harness: fibers that only yield / work / spawn.
#include <string.h>

#include "fiber_manager.h"
#include "fiber_spinlock.h"
#include "rt.h"

extern void rt_spawn(int idx);
extern int rt_join(int idx, void** result);

// "crowd n k": n further fibers, each yielding k times (anonymous: they count towards the number of ready fibers, the
// fairness bound is still checked for the program fibers)
static long crowd_total;
static fiber_spinlock_t y_spin;
static void yield_setup(void) { fiber_spinlock_init(&y_spin); }
static long y_try_failed;
static void* crowd_body(void* p) {
  for (long i = 0; i < (long)(intptr_t)p; i++) fiber_yield();
  return 0;
}
static int yield_do_op(int idx, op_t* op) {
  (void)idx;
  if (!strcmp(op->name, "spawn")) {
    rt_spawn(op->a);
    return 1;
  }
  if (!strcmp(op->name, "join")) {
    // wait for another program fiber (its first op is "target"): that fiber keeps yielding while somebody is blocked on it
    void* res = 0;
    if (rt_join(op->a, &res) != FIBER_SUCCESS) vs_violation("join_result", "fiber %d: join of fiber %d failed", idx, op->a);
    return 1;
  }
  if (!strcmp(op->name, "sphold")) {
    // takes a fiber spinlock, yields a times while holding it (nothing forbids that; others may only *try* it meanwhile), releases it
    fiber_spinlock_lock(&y_spin);
    for (int i = 0; i < op->a; i++) fiber_yield();
    fiber_spinlock_unlock(&y_spin);
    return 1;
  }
  if (!strcmp(op->name, "sptry")) {
    // a single trylock of that spinlock; released at once when it succeeds
    if (fiber_spinlock_trylock(&y_spin) == FIBER_SUCCESS) fiber_spinlock_unlock(&y_spin);
    else y_try_failed++;
    return 1;
  }
  if (!strcmp(op->name, "crowd")) {
    for (int i = 0; i < op->a; i++) {
      fiber_t* f = fiber_create(16384, &crowd_body, (void*)(intptr_t)op->b);
      if (!f) vs_violation("engine_limit", "fiber_create failed");
      fiber_detach(f);
    }
    crowd_total += op->a;
    return 1;
  }
  return 0;
}

GHOST static void yield_final(void) {
  if (strcmp(g_case.harness, "yield")) return;
  vs_rt_enter();
  int n;
  const gev_t* ev = g_evlog(&n);
  const int nf = g_case.n_fibers;
  const long bound = 2 * (nf + crowd_total + 1) + 2;
  // for each program fiber: thread it is queued on (-1 = not ready), bypass count
  int ready_on[MAX_FIBERS];
  long bypass[MAX_FIBERS];
  long max_bypass = 0, n_noswitch = 0;
  int max_ready = 0;
  int yielding[MAX_FIBERS];
  for (int i = 0; i < MAX_FIBERS; i++) ready_on[i] = -1, bypass[i] = 0, yielding[i] = -1;
  for (int k = 0; k < n; k++) {
    const gev_t* e = &ev[k];
    if (e->type == 3) {
      // the fiber enters fiber_yield: if another fiber is switched in on this thread next, it has really been switched away and
      // counts as ready from then on, whether or not the library passed it to the scheduler
      if (e->who >= 0) yielding[e->who] = e->thread;
      continue;
    }
    if (e->type == 1) {
      if (e->who >= 0) {
        ready_on[e->who] = e->thread;
        bypass[e->who] = 0;
        int r = 0;
        for (int i = 0; i < nf; i++) r += ready_on[i] >= 0;
        if (r > max_ready) max_ready = r;
      }
    } else if (e->type == 2) {
      if (e->who >= 0) yielding[e->who] = -1;
      // a yield that came back without switching: every fiber that was ready on that thread has been passed over once
      for (int i = 0; i < nf; i++)
        if (i != e->who && ready_on[i] == e->thread) {
          bypass[i]++;
          n_noswitch++;
          if (bypass[i] > bound && g_case.threads == 1)
            vs_violation("bypass_bound", "fiber %d was ready on kernel thread %d while %ld other fibers ran or yielded without giving way (bound %ld for %d fibers); last: fiber %d's "
                         "fiber_yield returned without a switch", i, e->thread, bypass[i], bound, nf, e->who);
        }
    } else {
      for (int i = 0; i < nf; i++)
        if (yielding[i] == e->thread && i != e->who) {
          if (ready_on[i] < 0) {
            ready_on[i] = e->thread;
            bypass[i] = 0;
          }
          yielding[i] = -1;
        }
      if (e->who >= 0) yielding[e->who] = -1;
      if (e->who == -2) continue;  // maintenance fiber: nothing was ready on that thread
      if (e->who >= 0) {
        if (bypass[e->who] > max_bypass) max_bypass = bypass[e->who];
        ready_on[e->who] = -1;
      }
      for (int i = 0; i < nf; i++)
        if (i != e->who && ready_on[i] == e->thread) {
          bypass[i]++;
          // the bound is only checkable where the ghost knows which queue holds the fiber: with >= 2 kernel
          // threads a ready fiber may have been stolen (invisible until it runs), so N-thread cases contribute
          // the termination check only
          if (bypass[i] > bound && g_case.threads == 1)
            vs_violation("bypass_bound", "fiber %d was ready on kernel thread %d while %ld other fibers were switched in there (bound %ld for %d fibers)", i,
                         e->thread, bypass[i], bound, nf);
        }
    }
  }
  long total_yields = 0;
  for (int i = 0; i < nf; i++)
    for (int j = 0; j < g_case.n_ops[i]; j++)
      if (!strcmp(g_case.ops[i][j].name, "yield")) total_yields += g_case.ops[i][j].a;
      else if (!strcmp(g_case.ops[i][j].name, "crowd")) total_yields += (long)g_case.ops[i][j].a * g_case.ops[i][j].b;
  vs_label_max("max_bypass", (uint64_t)max_bypass);
  vs_label_max("max_ready", (uint64_t)max_ready);
  vs_label_add("yield_without_switch_while_others_ready", (uint64_t)n_noswitch);
  vs_label_max("crowd", (uint64_t)crowd_total);
  vs_label_add("spinlock_trylock_failed", (uint64_t)y_try_failed);
  if (max_ready >= 3 && total_yields >= 5 * bound) rt_nontrivial("yield");
  vs_rt_exit();
}

const harness_t h_yield = {"yield", yield_setup, yield_do_op, 0, yield_final, 0};
