// C11 channels (bounded, unbounded, single-producer), raw signal, C20(b) multi-signal, C09 sleep
#include <string.h>
#include <time.h>
#include <unistd.h>

#include "fiber_channel.h"
#include "fiber_event.h"
#include "fiber_manager.h"
#include "fiber_signal.h"
#include "rt.h"

extern void rt_work(int idx, int n);
extern void rt_park(void** slot);
extern void rt_unpark(void** slot);

#define NCH 2
enum { CH_BOUNDED_SIG = 0, CH_BOUNDED_SPIN = 1, CH_UNBOUNDED = 2, CH_UNBOUNDED_SP = 3, CH_UNBOUNDED_SPIN = 5 };
static int ch_type[NCH], ch_cap[NCH];
static fiber_signal_t ch_sig[NCH];
static fiber_bounded_channel_t* ch_b[NCH];
static fiber_unbounded_channel_t ch_u[NCH];
static fiber_unbounded_sp_channel_t ch_sp[NCH];
// ghost
static long ch_sent_begun[NCH][MAX_FIBERS], ch_next[NCH][MAX_FIBERS];
static long ch_sends_done[NCH], ch_recvs_begun[NCH], ch_recvs_done[NCH], ch_sends_begun_total[NCH];
static int ch_recv_blocked, ch_send_woke;

#define ENC(s, q) ((void*)(uintptr_t)((((uintptr_t)(s) + 1) << 20) | ((uintptr_t)(q) + 1)))

GHOST static long gch_send_begin(int c, int s) {
  ch_sends_begun_total[c]++;
  return ch_sent_begun[c][s]++;
}
GHOST static void gch_send_done(int c, int woke) {
  ch_sends_done[c]++;
  if (woke) ch_send_woke++;
}
GHOST static void gch_recv_begin(int c) {
  vs_rt_enter();
  ch_recvs_begun[c]++;
  vs_rt_exit();
}
GHOST static void gch_recv_unbegin(int c) { ch_recvs_begun[c]--; }
GHOST static void gch_occupancy(int c) {
  vs_rt_enter();
  if (ch_cap[c] && ch_sends_done[c] - ch_recvs_begun[c] > ch_cap[c])
    vs_violation("capacity_exceeded", "channel %d: %ld sends completed but only %ld receives begun, capacity %d", c, ch_sends_done[c], ch_recvs_begun[c],
                 ch_cap[c]);
  vs_rt_exit();
}
GHOST static void gch_recv(int c, int idx, void* m) {
  vs_rt_enter();
  uintptr_t v = (uintptr_t)m;
  long s = (long)(v >> 20) - 1, q = (long)(v & 0xfffff) - 1;
  if (s < 0 || s >= g_case.n_fibers || q < 0 || q >= ch_sent_begun[c][s])
    vs_violation("message_invented", "channel %d: fiber %d received %p which no sender sent", c, idx, m);
  if (q < ch_next[c][s]) vs_violation("message_dup", "channel %d: message %ld of sender %ld received twice", c, q, s);
  if (q > ch_next[c][s])
    vs_violation("message_reordered", "channel %d: got message %ld of sender %ld while its message %ld was not received yet (lost or reordered)", c, q, s,
                 ch_next[c][s]);
  ch_next[c][s]++;
  ch_recvs_done[c]++;
  vs_rt_exit();
}
GHOST static void g_incr(int* c) { (*c)++; }

// cfg shared_signal 1: every channel of the case is created on signal 0 (one receiver waits for "any of them")
static int ch_shared;
#define SIG(c) (ch_shared ? &ch_sig[0] : &ch_sig[c])
static void chan_setup(void) {
  long n = cfg_get("nchan", 0);
  ch_shared = (int)cfg_get("shared_signal", 0);
  for (int c = 0; c < n && c < NCH; c++) {
    char k[16] = "chan_type0";
    k[9] = (char)('0' + c);
    ch_type[c] = (int)cfg_get(k, 0);
    strcpy(k, "chan_cap0");
    k[8] = (char)('0' + c);
    int lg = (int)cfg_get(k, 1);
    RT_DIRTY(ch_sig[c]);
    fiber_signal_init(&ch_sig[c]);
    vs_watch(&ch_sig[c], sizeof ch_sig[c]);
    switch (ch_type[c]) {
      case CH_BOUNDED_SIG:
      case CH_BOUNDED_SPIN:
        ch_cap[c] = 1 << lg;
        ch_b[c] = fiber_bounded_channel_create((uint32_t)lg, ch_type[c] == CH_BOUNDED_SIG ? SIG(c) : 0);
        break;
      case CH_UNBOUNDED:
        RT_DIRTY(ch_u[c]);
        fiber_unbounded_channel_init(&ch_u[c], SIG(c));
        break;
      case CH_UNBOUNDED_SPIN:
        RT_DIRTY(ch_u[c]);
        fiber_unbounded_channel_init(&ch_u[c], 0);
        break;
      case CH_UNBOUNDED_SP:
        RT_DIRTY(ch_sp[c]);
        fiber_unbounded_sp_channel_init(&ch_sp[c], SIG(c));
        break;
    }
  }
}

static int ch_try_empty;
static int chan_do_op(int idx, op_t* op) {
  int c = op->a % NCH;
  if (!strcmp(op->name, "send")) {
    for (int i = 0; i < op->b; i++) {
      long q = gch_send_begin(c, idx);
      void* m = ENC(idx, q);
      int woke = 0;
      switch (ch_type[c]) {
        case CH_BOUNDED_SIG:
        case CH_BOUNDED_SPIN:
          woke = fiber_bounded_channel_send(ch_b[c], m);
          break;
        case CH_UNBOUNDED:
        case CH_UNBOUNDED_SPIN: {
          fiber_unbounded_channel_message_t* n = malloc(sizeof *n);
          n->data = m;
          woke = fiber_unbounded_channel_send(&ch_u[c], n);
          break;
        }
        case CH_UNBOUNDED_SP: {
          fiber_unbounded_sp_channel_message_t* n = malloc(sizeof *n);
          n->data = m;
          woke = fiber_unbounded_sp_channel_send(&ch_sp[c], n);
          break;
        }
      }
      gch_send_done(c, woke);
      gch_occupancy(c);
      if (op->c) rt_work(idx, op->c);
    }
    return 1;
  }
  if (!strcmp(op->name, "recv")) {
    for (int i = 0; i < op->b; i++) {
      gch_recv_begin(c);
      int before = g_fiber_switches(idx);
      void* m = 0;
      switch (ch_type[c]) {
        case CH_BOUNDED_SIG:
        case CH_BOUNDED_SPIN:
          m = fiber_bounded_channel_receive(ch_b[c]);
          break;
        case CH_UNBOUNDED:
        case CH_UNBOUNDED_SPIN: {
          fiber_unbounded_channel_message_t* n = fiber_unbounded_channel_receive(&ch_u[c]);
          m = n->data;
          free(n);
          break;
        }
        case CH_UNBOUNDED_SP: {
          fiber_unbounded_sp_channel_message_t* n = fiber_unbounded_sp_channel_receive(&ch_sp[c]);
          m = n->data;
          free(n);
          break;
        }
      }
      if (g_fiber_switches(idx) != before && (ch_type[c] == CH_BOUNDED_SIG || ch_type[c] == CH_UNBOUNDED || ch_type[c] == CH_UNBOUNDED_SP))
        g_incr(&ch_recv_blocked);
      gch_recv(c, idx, m);
      if (op->c) rt_work(idx, op->c);
    }
    return 1;
  }
  if (!strcmp(op->name, "selrecv")) {
    // one receiver for all channels of the case, which share one signal: poll every channel with try_receive, sleep on the
    // signal when all were empty, until b messages have arrived
    long nch = cfg_get("nchan", 1);
    for (int got = 0; got < op->b;) {
      // one pass: drain channel 0, then channel 1 (each until it reports empty), then sleep on the signal - a message that
      // arrives in a channel after it was drained has raised the signal, so the sleep returns at once
      for (int k = 0; k < nch && k < NCH && got < op->b; k++) {
       for (;;) {
        void* m = 0;
        gch_recv_begin(k);
        g_nb_enter(idx);
        switch (ch_type[k]) {
          case CH_BOUNDED_SIG:
            if (!fiber_bounded_channel_try_receive(ch_b[k], &m)) m = 0;
            break;
          case CH_UNBOUNDED: {
            fiber_unbounded_channel_message_t* n = fiber_unbounded_channel_try_receive(&ch_u[k]);
            if (n) {
              m = n->data;
              free(n);
            }
            break;
          }
          default: {
            fiber_unbounded_sp_channel_message_t* n = fiber_unbounded_sp_channel_try_receive(&ch_sp[k]);
            if (n) {
              m = n->data;
              free(n);
            }
            break;
          }
        }
        g_nb_exit(idx);
        if (!m) {
          gch_recv_unbegin(k);
          break;
        }
        gch_recv(k, idx, m);
        got++;
        if (op->c) rt_work(idx, op->c);
        if (got >= op->b) break;
       }
      }
      if (got < op->b) {
        int before = g_fiber_switches(idx);
        fiber_signal_wait(&ch_sig[0]);
        if (g_fiber_switches(idx) != before) g_incr(&ch_recv_blocked);
      }
    }
    return 1;
  }
  if (!strcmp(op->name, "tryrecv")) {
    // the non-blocking receive entry points, polled with fiber_yield until b messages have arrived
    for (int i = 0; i < op->b; i++) {
      gch_recv_begin(c);
      void* m = 0;
      for (;;) {
        g_nb_enter(idx);
        switch (ch_type[c]) {
          case CH_BOUNDED_SIG:
          case CH_BOUNDED_SPIN:
            if (!fiber_bounded_channel_try_receive(ch_b[c], &m)) m = 0;
            break;
          case CH_UNBOUNDED:
          case CH_UNBOUNDED_SPIN: {
            fiber_unbounded_channel_message_t* n = fiber_unbounded_channel_try_receive(&ch_u[c]);
            if (n) {
              m = n->data;
              free(n);
            }
            break;
          }
          case CH_UNBOUNDED_SP: {
            fiber_unbounded_sp_channel_message_t* n = fiber_unbounded_sp_channel_try_receive(&ch_sp[c]);
            if (n) {
              m = n->data;
              free(n);
            }
            break;
          }
        }
        g_nb_exit(idx);
        if (m) break;
        g_incr(&ch_try_empty);
        fiber_yield();
      }
      gch_recv(c, idx, m);
      if (op->c) rt_work(idx, op->c);
    }
    return 1;
  }
  return 0;
}

GHOST static void chan_final(void) {
  vs_rt_enter();
  long n = cfg_get("nchan", 0);
  long total = 0;
  for (int c = 0; c < n && c < NCH; c++) {
    if (ch_recvs_done[c] != ch_sends_begun_total[c] && g_all_done())
      vs_violation("message_lost", "channel %d: %ld messages sent, %ld received", c, ch_sends_begun_total[c], ch_recvs_done[c]);
    total += ch_recvs_done[c];
  }
  if (n) {
    vs_label_add("chan_messages", total);
    vs_label_add("chan_recv_blocked", ch_recv_blocked);
    vs_label_add("chan_try_receive_empty", ch_try_empty);
    vs_label_add("chan_send_woke", ch_send_woke);
    if (total > 0 && (ch_recv_blocked > 0 || ch_send_woke > 0 || ch_try_empty > 0 || g_case.threads > 1)) rt_nontrivial("chan");
  }
  vs_rt_exit();
}
const harness_t h_chan = {"chan", chan_setup, chan_do_op, 0, chan_final, 0};

// ------------------------------------------------------------------ multi-signal (C20 b)
static fiber_multi_signal_t msig;
static int ms_on;
static long ms_waits_begun, ms_waits_returned, ms_blocked_returned, ms_raise1, ms_raise0, ms_strict_done;
static int ms_waiting[MAX_FIBERS];
static void* ms_ctl_slot;
static volatile int ms_ctl_parked, ms_ctl_done;
static int ms_have_ctl;

GHOST static void gms_wait_begin(int idx) {
  ms_waiting[idx] = 1;
  ms_waits_begun++;
}
GHOST static void gms_wait_return(int idx, int blocked) {
  vs_rt_enter();
  ms_waiting[idx] = 0;
  ms_waits_returned++;
  if (blocked) ms_blocked_returned++;
  // every return needs a raise: blocked ones a raise that reported a wake-up (or a strict raise),
  // unblocked ones a raise that left the signal raised
  if (ms_waits_returned > ms_raise1 + ms_raise0 + ms_strict_done + 0)
    ;  // raises in flight are counted when they return; checked at quiescence instead
  vs_rt_exit();
}
GHOST static void gms_raise_done(int r, int strict) {
  if (strict) ms_strict_done++;
  else if (r) ms_raise1++;
  else ms_raise0++;
}
GHOST static int gms_leftover(void) {
  int n = 0;
  for (int i = 0; i < g_case.n_fibers; i++) n += ms_waiting[i];
  return n;
}
GHOST static void gms_quiescent(void) {
  vs_rt_enter();
  int left = gms_leftover();
  if (left && msig.data.head == FIBER_MULTI_SIGNAL_RAISED)
    vs_violation("lost_signal", "multi-signal is in the raised state while %d fibers are blocked waiting on it", left);
  if (ms_blocked_returned != ms_raise1 + ms_strict_done)
    vs_violation("released_without_signal", "multi-signal: %ld waits blocked and were released, but %ld raises reported a wake-up (+%ld strict)",
                 ms_blocked_returned, ms_raise1, ms_strict_done);
  if (ms_waits_returned - ms_blocked_returned > ms_raise0)
    vs_violation("released_without_signal", "multi-signal: %ld waits returned without blocking but only %ld raises left the signal raised",
                 ms_waits_returned - ms_blocked_returned, ms_raise0);
  vs_rt_exit();
}
static void ms_setup(void) {
  ms_on = (int)cfg_get("msig", 0);
  if (!ms_on) return;
  RT_DIRTY(msig);
  fiber_multi_signal_init(&msig);
  vs_watch(&msig, sizeof msig);
  for (int i = 0; i < g_case.n_fibers; i++)
    for (int j = 0; j < g_case.n_ops[i]; j++)
      if (!strcmp(g_case.ops[i][j].name, "mctl")) ms_have_ctl = 1;
}
static int ms_do_op(int idx, op_t* op) {
  if (!strcmp(op->name, "mwait")) {
    gms_wait_begin(idx);
    int before = g_fiber_switches(idx);
    fiber_multi_signal_wait(&msig);
    gms_wait_return(idx, g_fiber_switches(idx) != before);
    return 1;
  }
  if (!strcmp(op->name, "mraise")) {
    rt_known_read_site(1);
    int r = fiber_multi_signal_raise(&msig);
    rt_known_read_site(0);
    gms_raise_done(r, 0);
    return 1;
  }
  if (!strcmp(op->name, "mstrict")) {
    rt_known_read_site(1);
    fiber_multi_signal_raise_strict(&msig);
    rt_known_read_site(0);
    gms_raise_done(1, 1);
    return 1;
  }
  if (!strcmp(op->name, "mctl")) {
    for (;;) {
      ms_ctl_parked = 1;
      rt_park(&ms_ctl_slot);
      ms_ctl_parked = 0;
      gms_quiescent();
      if (!gms_leftover()) break;
      rt_known_read_site(1);
      int r = fiber_multi_signal_raise(&msig);
      rt_known_read_site(0);
      gms_raise_done(r, 0);
    }
    ms_ctl_done = 1;
    return 1;
  }
  return 0;
}
static int ms_at_quiescence(void) {
  if (ms_have_ctl && ms_ctl_parked && !ms_ctl_done) {
    rt_unpark(&ms_ctl_slot);
    return 1;
  }
  return 0;
}
GHOST static void ms_final(void) {
  vs_rt_enter();
  if (ms_on) {
    gms_quiescent();
    vs_label_add("msig_blocked_waits", ms_blocked_returned);
    vs_label_add("msig_coalesced_or_flag", ms_raise0);
    if (ms_blocked_returned > 0) rt_nontrivial("msig");
  }
  vs_rt_exit();
}
const harness_t h_msig = {"msig", ms_setup, ms_do_op, ms_at_quiescence, ms_final, 0};

// ------------------------------------------------------------------ sleep (C09)
static long sl_calls, sl_max_ticks;
static volatile char sl_sink;

static __attribute__((noinline)) void scribble(int idx) {
  // reuse the stack region a sleeping fiber's frame occupied
  volatile char buf[384];
  for (unsigned i = 0; i < sizeof buf; i++) buf[i] = (char)(0xA5 ^ idx ^ i);
  sl_sink = buf[(unsigned)idx % sizeof buf];
}

GHOST static void gsl_check(int idx, long req_us, uint64_t d_call, uint64_t d_ret, int kind) {
  vs_rt_enter();
  // virtual clock: tick i is delivered at 5*i ms.  The call happened before tick d_call+1,
  // the return after tick d_ret: elapsed >= 5 ms * (d_ret - d_call - 1)
  long long elapsed_us = ((long long)d_ret - (long long)d_call - 1) * FIBER_TIME_RESOLUTION_MS * 1000LL;
  if (elapsed_us < 0) elapsed_us = 0;  // time does not run backwards: a 0-duration request is always satisfied
  if (elapsed_us < req_us)
    vs_violation("early_wake", "fiber %d: sleep kind %d of %ld us returned after at most %lld us of virtual time (ticks %llu -> %llu)", idx, kind, req_us,
                 elapsed_us + FIBER_TIME_RESOLUTION_MS * 1000LL, (unsigned long long)d_call, (unsigned long long)d_ret);
  sl_calls++;
  if ((long)(d_ret - d_call) > sl_max_ticks) sl_max_ticks = (long)(d_ret - d_call);
  vs_rt_exit();
}

static volatile int sl_flag[8];
static void real_sleep_trap(const char* which) {
  if (g_cur_idx() >= 0) vs_violation("kernel_thread_blocked", "a fiber reached the real libc %s (would block its kernel thread)", which);
}
static void sleep_setup(void) {
  if (cfg_get("sleepers", 0)) vs_on_real_sleep = real_sleep_trap;
}
static int sleep_do_op(int idx, op_t* op) {
  if (!strcmp(op->name, "tick")) {
    // virtual time passes while the fiber is busy: expirations pile up unread
    vs_timer_tick((uint64_t)op->a);
    return 1;
  }
  if (!strcmp(op->name, "pollflag")) {
    // a fiber that polls with fiber_yield for something a sleeping fiber will do after it wakes; virtual time passes while it
    // polls (one tick per iteration), the kernel thread never goes idle
    long n = 0;
    while (!sl_flag[op->a & 7]) {
      vs_timer_tick(1);
      fiber_yield();
      if (++n > 2000000 && !vs_long_stall_run()) vs_violation("livelock", "fiber %d polled 2000000 times (10000 s of virtual time) for a sleeper that was never resumed", idx);
    }
    return 1;
  }
  if (!strcmp(op->name, "setflag")) {
    sl_flag[op->a & 7] = 1;
    return 1;
  }
  if (strcmp(op->name, "sleep")) return 0;
  // a: kind 0 fiber_sleep, 1 usleep, 2 nanosleep, 3 sleep(); b: seconds; c: microseconds
  long req_us = (long)op->b * 1000000L + op->c;
  uint64_t d0 = g_ticks();
  g_sleep_enter(idx);
  switch (op->a) {
    case 0:
      fiber_sleep((uint32_t)op->b, (uint32_t)op->c);
      break;
    case 1:
      usleep((useconds_t)req_us);
      break;
    case 2: {
      struct timespec ts = {op->b, (long)op->c * 1000L}, rem;
      nanosleep(&ts, &rem);
      break;
    }
    default:
      sleep((unsigned)op->b);
      req_us = (long)op->b * 1000000L;
      break;
  }
  g_sleep_exit(idx);
  gsl_check(idx, req_us, d0, g_ticks(), op->a);
  scribble(idx);
  return 1;
}
GHOST static void sleep_final(void) {
  vs_rt_enter();
  if (cfg_get("sleepers", 0)) {
    vs_label_add("sleep_calls", sl_calls);
    vs_label_max("sleep_max_ticks", sl_max_ticks);
    if (sl_calls > 0) rt_nontrivial("sleep");
  }
  vs_rt_exit();
}
const harness_t h_sleep = {"sleep", sleep_setup, sleep_do_op, 0, sleep_final, 0};
