#include <stdio.h>
#include "fiber_manager.h"
static int order[64]; static int n; static volatile int ran[3];
static void* f(void* p){ int id=(int)(long)p; for(int i=0;i<1000;i++){ if(n<30) order[n++]=id; ran[id]++; fiber_yield(); } return 0; }
int main(){ fiber_manager_init(1); fiber_t* fs[3]; for(long i=0;i<3;i++) fs[i]=fiber_create(102400,f,(void*)i);
 for(int k=0;k<200;k++) fiber_yield();
 printf("after 200 yields of main: ran = %d %d %d ; first runs:", ran[0],ran[1],ran[2]); for(int i=0;i<n;i++) printf(" %d",order[i]); printf("\n");
 for(int i=0;i<3;i++) fiber_join(fs[i],0); return 0; }
