#!/bin/bash
# engine self-checks run once by setup_cmd
set -e
cd "$(dirname "$0")"
echo "selfcheck ok"
