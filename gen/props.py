"""Per-property generators (Hypothesis strategies built by construction from
terminating gadgets), budgets, non-triviality rules."""
import os
from hypothesis import strategies as st


class Spec:
    def __init__(self, pid, binary, parts_fn, examples, rule, assumptions, technique, build="rt"):
        self.id = pid
        self.binary = binary
        self._parts = parts_fn
        self._examples = examples
        self.rule = rule
        self.assumptions = assumptions
        self.technique = technique
        self.build = build

    def parts(self, tier):
        return self._parts(tier)

    def examples(self, tier):
        return self._examples[tier]


def T(tier, quick, thorough):
    return quick if tier == "quick" else thorough


ints = st.integers


def op(name, a=0, b=0, c=0):
    return (name, a, b, c)


LONG_STALL_POINTS = 1000000000


@st.composite
def dirty_wrap(draw, strat, tier="quick"):
    """one case in five initialises its objects in memory that is not zero (cfg dirty = byte pattern 0xA5 / 0xFF / 0x01 / 0x80):
    a stack slot, a recycled heap chunk, an object destroyed and initialised again"""
    case = draw(strat)
    if draw(ints(0, 4)) == 0:
        case["cfg"] = dict(case["cfg"], dirty=draw(ints(1, 4)))
        case["classes"] = list(case.get("classes", [])) + ["dirty_object_memory"]
    if case.get("harness") in ("deque", "mpmc", "ring") and draw(ints(0, 2)) == 0:
        # the items stored are pointer-sized values of different shapes: id << 32 (low half zero), id << 48, bit 63 set, page-aligned
        case["cfg"] = dict(case["cfg"], item_shape=draw(ints(1, 4)))
        case["classes"] = list(case.get("classes", [])) + ["item_shape_%d" % case["cfg"]["item_shape"]]
    if draw(ints(0, 5)) == 0:
        # fiber stack size requested from fiber_create (default 64 KiB): smaller, larger, not a multiple of 16 or of the page size
        case["cfg"] = dict(case["cfg"], stack=draw(st.sampled_from([32768, 49153, 100000, 102400, 262144, 1000003])))
        case["classes"] = list(case.get("classes", [])) + ["other_stack_size"]
    return case


# "any number of fibers": sizes of the anonymous crowds some cases add (waiters on one mutex, participants of one barrier,
# yielders on one thread); around the powers of two a narrower counter or a fixed-size batch would break at
CROWD_SIZES = [40, 130, 260, 300, 1030, 1100, 2100, 33000, 66000, 70000]


def crowd_class(n):
    return "crowd<=300" if n <= 300 else "crowd<=2100" if n <= 2100 else "crowd>=33000"


def crowd_limits(n):
    # large programs: fewer schedules each, larger point budgets
    if n <= 300:
        return {"max_sched": 12}
    return {"max_sched": 4 if n <= 2100 else 2, "args": ["--soft", 400000000, "--hard", 800000000]}


# --------------------------------------------------------------------------- C03
@st.composite
def mutex_case(draw, tier):
    threads = draw(ints(1, T(tier, 3, 4)))
    nm = draw(ints(1, 2))
    nf = draw(ints(2, T(tier, 6, 10)))
    fibers = []
    for _ in range(nf):
        n = draw(ints(1, T(tier, 6, 14)))
        ops = []
        for _ in range(n):
            k = draw(st.sampled_from(["lock", "lock", "lock", "trylock", "yield", "work"]))
            if k in ("lock", "trylock"):
                ops.append(op(k, draw(ints(0, nm - 1)), draw(ints(0, 2)), draw(ints(0, 4))))
            elif k == "yield":
                ops.append(op("yield", draw(ints(1, 2))))
            else:
                ops.append(op("work", draw(ints(1, 6))))
        fibers.append(ops)
    classes = ["threads=%d" % threads]
    if any(o[0] == "trylock" for f in fibers for o in f):
        classes.append("has_trylock")
    case = {"harness": "mutex", "threads": threads, "cfg": {"nmutex": nm}, "fibers": fibers, "classes": classes}
    if draw(ints(0, 39)) == 0:
        # any number of waiters: one fiber holds the mutex while a crowd of further fibers runs into it
        n = draw(st.sampled_from(CROWD_SIZES))
        fibers[0].insert(0, op("lockcrowd", draw(ints(0, nm - 1)), n))
        classes.append(crowd_class(n))
        case.update(crowd_limits(n))
    return case


def c03_parts(tier):
    return [{"name": "mutex", "strategy": mutex_case(tier), "nsched": T(tier, 32, 192), "args": ["--tso", 1]}]


SPECS = {}

SPECS["C03"] = Spec(
    "C03", "runner_rt", c03_parts, {"quick": 420, "thorough": 6000},
    rule=("Hypothesis generates fiber programs over 1-2 mutexes (lock/trylock sections whose bodies read-modify-write a plain cell and may "
          "yield, plus yield/work ops) on 1-3(4) virtual kernel threads; each program is executed under 32 (192) generated schedules "
          "(fair, random walk, PCT, targeted delay on the mutex words). An execution is non-trivial when at least one lock call was "
          "contended (the locker was suspended in the waiter queue and resumed by an unlock); distinct = distinct (program, decision list)."),
    assumptions=["x86-64, clang -O1 build of the current tree with asserts on", "interleavings at instrumented-access granularity (SC; TSO store buffers in a third of thorough schedules)"],
    technique="property-based testing: Hypothesis-generated fiber programs x generated schedules under an owned scheduler, occupancy/visibility ghost oracle, quiescence = deadlock proof")


RT_ASSUME = ["x86-64, clang -O1 build of the current working tree with asserts on (asserts join the oracle)",
             "interleavings at instrumented-access granularity; SC everywhere, x86-TSO store buffers in a third of the thorough schedules",
             "kernel is real for fds, but time is virtual (timerfd replaced by an eventfd the harness ticks at quiescence)"]
RT_TECH = ("property-based testing: Hypothesis-generated fiber programs x generated schedules (fair, random walk, PCT, targeted delay, replay) "
           "under an owned scheduler; ghost-state oracle; quiescence = deadlock proof; decision-list shrinking")


def small_ops(draw, n_max):
    ops = []
    for _ in range(draw(ints(0, n_max))):
        k = draw(ints(0, 8))
        if k < 4:
            ops.append(op("yield", draw(ints(1, 2))))
        elif k < 8:
            ops.append(op("work", draw(ints(1, 5))))
        else:
            # a private short-lived mutex / semaphore / rwlock / barrier / condition / spinlock: init, use, destroy
            ops.append(op("lifecycle", draw(ints(0, 5))))
    return ops


# --------------------------------------------------------------------------- C06
@st.composite
def sem_case(draw, tier):
    threads = draw(ints(1, T(tier, 3, 4)))
    ns = draw(ints(1, 2))
    inits = [draw(ints(0, 3)) for _ in range(ns)]
    big = draw(ints(0, 4)) == 0
    if big:
        # a semaphore that already holds many units: value just below a power of two the posts then cross
        inits[0] = 2 ** draw(st.sampled_from([8, 15, 16, 24, 30])) - draw(ints(0, 3))
    nf = draw(ints(2, T(tier, 6, 10)))
    cycles = draw(ints(0, 3)) == 0   # short-lived semaphores are initialised, used and destroyed in between
    uposts, uwaits, paired = [0] * ns, [0] * ns, [False] * ns
    fibers = []
    for _ in range(nf):
        ops = []
        # unpaired posts come first in a fiber, so they are never stuck behind a wait
        for _ in range(draw(ints(0, 2))):
            s = draw(ints(0, ns - 1))
            ops.append(op("spost", s))
            uposts[s] += 1
        for _ in range(draw(ints(0, T(tier, 5, 10)))):
            k = draw(st.sampled_from(["swaitpost", "swaitpost", "strywait", "swait", "yield", "work"] + (["semcycle"] if cycles else [])))
            s = draw(ints(0, ns - 1))
            if k == "semcycle":
                ops.append(op("semcycle", 0, draw(ints(0, 2)), draw(ints(0, 1))))
                continue
            if k == "swait":
                ops.append(op("swait", s))
                uwaits[s] += 1
            elif k in ("swaitpost", "strywait"):
                ops.append(op(k, s, draw(ints(0, 2)), draw(ints(0, 4))))
                if k == "swaitpost":
                    paired[s] = True
            elif k == "yield":
                ops.append(op("yield", draw(ints(1, 2))))
            else:
                ops.append(op("work", draw(ints(1, 5))))
        fibers.append(ops)
    # make every wait satisfiable: missing units arrive from a late poster fiber (so waiters really block)
    poster = []
    for s in range(ns):
        need = uwaits[s] + (1 if paired[s] else 0) - uposts[s] - inits[s]
        for _ in range(max(0, need)):
            poster.append(op("yield", draw(ints(1, 3))))
            poster.append(op("spost", s))
    if poster:
        fibers.append(poster)
    cfg = {"nsem": ns}
    for s in range(ns):
        cfg["sem_init%d" % s] = inits[s]
    classes = ["threads=%d" % threads, "late_poster" if poster else "no_late_poster", "value_near_2^k" if big else "small_value"] + (["init_destroy_cycles"] if cycles else [])
    crowd = {}
    if draw(ints(0, 29)) == 0:
        # any number of fibers blocked on one semaphore
        n = draw(st.sampled_from(CROWD_SIZES))
        fibers[0].insert(0, op("semcrowd", draw(ints(0, ns - 1)), n))
        classes.append(crowd_class(n))
        crowd = crowd_limits(n)
    return {**crowd, "harness": "sem", "threads": threads, "cfg": cfg, "fibers": fibers, "classes": classes}


# --------------------------------------------------------------------------- C07
@st.composite
def rwlock_case(draw, tier):
    threads = draw(ints(1, T(tier, 3, 4)))
    nl = draw(ints(1, 2))
    nf = draw(ints(2, T(tier, 7, 10)))
    bias = draw(st.sampled_from(["mixed", "writer_waits_readers_arrive", "readers_behind_writer"]))
    fibers = []
    for i in range(nf):
        ops = []
        for _ in range(draw(ints(1, T(tier, 6, 12)))):
            if bias == "writer_waits_readers_arrive":
                kinds = ["rd", "rd", "rd", "wr", "tryrd", "yield"]
            elif bias == "readers_behind_writer":
                kinds = ["wr", "wr", "rd", "rd", "trywr", "yield"]
            else:
                kinds = ["rd", "wr", "tryrd", "trywr", "yield", "work"]
            k = draw(st.sampled_from(kinds))
            if k in ("rd", "wr", "tryrd", "trywr"):
                ops.append(op(k, draw(ints(0, nl - 1)), draw(ints(0, 2)), draw(ints(0, 4))))
            elif k == "yield":
                ops.append(op("yield", draw(ints(1, 2))))
            else:
                ops.append(op("work", draw(ints(1, 5))))
        fibers.append(ops)
    case = {"harness": "rwlock", "threads": threads, "cfg": {"nrw": nl}, "fibers": fibers, "classes": ["threads=%d" % threads, bias]}
    if draw(ints(0, 14)) == 0:
        # write-mostly lock under sustained contention: a few fibers each take the write lock many times in a row (hundreds of
        # consecutive writer-to-writer hand-offs)
        l = draw(ints(0, nl - 1))
        for f in fibers[:draw(ints(2, min(4, nf)))]:
            f.insert(draw(ints(0, len(f))), op("wrloop", l, draw(st.sampled_from([40, 70, 140, 300]))))
        case["classes"].append("writer_streak")
        case["max_sched"] = 12
    if draw(ints(0, 29)) == 0:
        # any number of readers queued behind a writer and admitted by one hand-off
        n = draw(st.sampled_from(CROWD_SIZES))
        f = fibers[draw(ints(0, nf - 1))]
        # ... behind a writer that holds the lock, or behind a writer that is itself waiting for a reader to leave
        f.insert(draw(ints(0, len(f))), op(draw(st.sampled_from(["rdcrowd", "wrcrowd"])), draw(ints(0, nl - 1)), n))
        case["classes"].append("waiting_" + crowd_class(n))
        case.update(crowd_limits(n))
    elif draw(ints(0, 29)) == 0:
        # any number of simultaneous read holds
        n = draw(st.sampled_from(CROWD_SIZES + [4095, 4096, 4097]))
        f = fibers[draw(ints(0, nf - 1))]
        f.insert(draw(ints(0, len(f))), op("rdhold", draw(ints(0, nl - 1)), n))
        case["classes"].append(crowd_class(n))
        case.update(crowd_limits(n))
    return case


# --------------------------------------------------------------------------- C12
@st.composite
def barrier_case(draw, tier):
    threads = draw(ints(1, T(tier, 3, 4)))
    count = draw(ints(1, T(tier, 5, 6)))
    rounds = draw(ints(1, 6))
    fibers = []
    for _ in range(count):
        ops = []
        for _ in range(rounds):
            ops.extend(small_ops(draw, 1))
            ops.append(op("bwait", 0))
        fibers.append(ops)
    cfg = {"nbar": 1, "bar_count0": count}
    classes = ["threads=%d" % threads, "count=%d" % count, "rounds>=2" if rounds >= 2 else "rounds=1"]
    if draw(ints(0, 3)) == 0:
        # the barrier has already been through ~2^32 / ~2^31 waits (free-running ticket counter about to cross a power of two)
        cfg["bar_start"] = draw(st.sampled_from([4294967296, 2147483648, 4294967296 * 3])) - count * draw(ints(0, 2))
        classes.append("counter_near_2^32")
    # optionally a second, independent group on barrier 1
    if draw(st.booleans()) and count <= 3:
        c2 = draw(ints(1, 3))
        r2 = draw(ints(1, 4))
        for _ in range(c2):
            ops = []
            for _ in range(r2):
                ops.extend(small_ops(draw, 1))
                ops.append(op("bwait", 1))
            fibers.append(ops)
        cfg["nbar"] = 2
        cfg["bar_count1"] = c2
        classes.append("two_groups")
    case = {"harness": "barrier", "threads": threads, "cfg": cfg, "fibers": fibers, "classes": classes}
    if draw(ints(0, 29)) == 0:
        # any number of participants: the first fiber starts a crowd of further participants of barrier 0
        n = draw(st.sampled_from([c for c in CROWD_SIZES if c <= 2100]))
        fibers[0].insert(0, op("bcrowd", n, rounds))
        cfg["bar_count0"] = count + n
        if "bar_start" in cfg:
            del cfg["bar_start"]
            classes.remove("counter_near_2^32")
        classes.append(crowd_class(n))
        case.update(crowd_limits(n))
    return case


# --------------------------------------------------------------------------- C18
@st.composite
def spin_case(draw, tier):
    threads = draw(ints(1, T(tier, 3, 4)))
    nl = draw(ints(1, 2))
    start = draw(st.sampled_from([0, 0, 1, 4294967295, 4294967294, 4294967290, 2147483647]))
    nf = draw(ints(2, T(tier, 6, 9)))
    fibers = []
    for _ in range(nf):
        ops = []
        for _ in range(draw(ints(1, T(tier, 6, 12)))):
            k = draw(st.sampled_from(["slock", "slock", "strylock", "yield", "work"]))
            if k in ("slock", "strylock"):
                ops.append(op(k, draw(ints(0, nl - 1)), 0, draw(ints(0, 4))))
            elif k == "yield":
                ops.append(op("yield", 1))
            else:
                ops.append(op("work", draw(ints(1, 5))))
        fibers.append(ops)
    classes = ["threads=%d" % threads, "wrap" if start > 4000000000 else "nowrap"]
    return {"harness": "spin", "threads": threads, "cfg": {"nspin": nl, "spin_start": start}, "fibers": fibers, "classes": classes}


# --------------------------------------------------------------------------- C05
@st.composite
def cond_case(draw, tier):
    threads = draw(ints(1, T(tier, 3, 4)))
    nw = draw(ints(1, T(tier, 4, 6)))
    nsig = draw(ints(1, T(tier, 3, 5)))
    fibers = []
    for _ in range(nw):
        ops = small_ops(draw, 1)
        ops.append(op("cwait", draw(ints(1, 3)), draw(st.sampled_from([0, 0, 1, 2]))))
        fibers.append(ops)
    held_any = unheld_any = False
    for _ in range(nsig):
        ops = []
        for _ in range(draw(ints(1, T(tier, 4, 7)))):
            ops.extend(small_ops(draw, 1))
            held = draw(ints(0, 1))
            held_any |= bool(held)
            unheld_any |= not held
            ops.append(op(draw(st.sampled_from(["csignal", "csignal", "cbcast"])), held))
        fibers.append(ops)
    if draw(ints(0, 5)) == 0:
        # a fiber that polls with fiber_yield (never blocks) for something a signaller does after it got and released the mutex
        sg = [f for f in fibers if any(o[0] in ("csignal", "cbcast") and o[1] == 1 for o in f)]
        if sg:
            sg[0].append(op("csetflag", 0))
            fibers.append(small_ops(draw, 1) + [op("cpollflag", 0)])
    trylockers = draw(st.sampled_from([0, 0, 0, 1, 2]))
    for _ in range(trylockers):
        # somebody polls the condition's mutex with trylock while waits release and re-acquire it
        fibers.append(small_ops(draw, 1) + [op("ctrylock", draw(ints(1, 12)), draw(ints(0, 3)))])
    order = draw(st.permutations(list(range(len(fibers)))))
    fibers = [fibers[i] for i in order]
    crowd = {}
    ccls = []
    if draw(ints(0, 24)) == 0:
        # any number of waiters (around multiples of 128 and above 1024 as well)
        n = draw(st.sampled_from([40, 127, 128, 129, 256, 300, 384, 1030, 2100]))
        fibers[0].insert(0, op("ccrowd", n))
        ccls = [crowd_class(n)]
        crowd = crowd_limits(n)
    fibers.append([op("ctl")])
    classes = ["threads=%d" % threads] + (["mutex_polled_with_trylock"] if trylockers else []) + ccls
    if held_any:
        classes.append("signal_holding_mutex")
    if unheld_any:
        classes.append("signal_without_mutex")
    return {**crowd, "harness": "cond", "threads": threads, "cfg": {"cond": 1}, "fibers": fibers, "classes": classes}


# --------------------------------------------------------------------------- C04
@st.composite
def join_case(draw, tier, allow_detach_blocked=True):
    threads = draw(ints(1, T(tier, 3, 4)))
    nt = draw(ints(1, T(tier, 3, 5)))
    scen_pool = ["join", "tryjoin", "detach", "contend_jj", "contend_jt", "detachjoin", "contend_finished", "contend_finished"]
    if allow_detach_blocked:
        scen_pool.append("detachblocked")
    scens = [draw(st.sampled_from(scen_pool)) for _ in range(nt)]
    targets, actors = [], []
    # targets first: indexes 0..nt-1
    for t, sc in enumerate(scens):
        gated = sc in ("contend_jj", "contend_jt", "detachjoin", "detachblocked")
        targets.append([op("target", 0 if gated else -1)] + small_ops(draw, 3))
    base = nt
    for t, sc in enumerate(scens):
        pre = small_ops(draw, 2)
        if sc == "join":
            actors.append(pre + [op("join", t, 0)])
        elif sc == "tryjoin":
            actors.append(pre + [op("tryjoin", t, 0, draw(ints(0, 2)))])
        elif sc == "detach":
            actors.append(pre + [op("detach", t)])
        elif sc == "contend_jj":
            actors.append(pre + [op("join", t, 1)])
            actors.append(small_ops(draw, 2) + [op("join", t, 1)])
        elif sc == "contend_jt":
            actors.append(pre + [op("join", t, 1)])
            actors.append(small_ops(draw, 2) + [op("tryjoin", t, 1)])
        elif sc == "detachjoin":
            actors.append(pre + [op("detachjoin", t)])
        elif sc == "contend_finished":
            # 2-3 contenders racing on an UNGATED target (it may already have finished): at most one may succeed
            kinds = [draw(st.sampled_from(["join", "tryjoin", "tryjoin"])) for _ in range(draw(ints(2, 3)))]
            for i, k in enumerate(kinds):
                p2 = pre if i == 0 else small_ops(draw, 2)
                actors.append(p2 + [op("join", t, 1) if k == "join" else op("tryjoin", t, 3, draw(ints(0, 1)))])
        elif sc == "detachblocked":
            j = base + len(actors)
            actors.append(pre + [op("join", t, 2)])
            actors.append(small_ops(draw, 1) + [op("detachblocked", t, j)])
    fibers = targets + actors
    classes = ["threads=%d" % threads] + sorted(set(scens))
    cfg = {"allow_freed": 1} if "contend_finished" in scens else {}
    if draw(ints(0, 5)) == 0:
        # a chain: fiber J joins a target F (still running, with luck) without asking for its result, then returns NULL itself; another fiber joins J and
        # asks for the result (a fiber's result slot is also where a joiner's hand-over lands)
        f_i, j_i = len(fibers), len(fibers) + 1
        fibers.append([op("target", -1), op("yield", draw(ints(1, 4)))] + small_ops(draw, 2))
        fibers.append([op("target", -1)] + small_ops(draw, 1) + [op("join", f_i, 0, 1)])
        fibers.append(small_ops(draw, 2) + [op("join", j_i, 0, 2)])
        cfg["ret_null"] = j_i + 1
        classes.append("join_chain")
    if draw(ints(0, 3)) == 0:
        # the targets return values a library might use as in-band markers (NULL, -1, -2, -3, 1, 2) instead of distinct tokens
        cfg["ret_special"] = draw(ints(1, 6))
        classes.append("special_return_values")
    return {"harness": "join", "threads": threads, "cfg": cfg, "fibers": fibers, "classes": classes}


# --------------------------------------------------------------------------- C11
@st.composite
def chan_case(draw, tier):
    ctype = draw(st.sampled_from([0, 0, 1, 2, 2, 3, 5]))
    threads = draw(ints(2 if ctype == 5 else 1, T(tier, 3, 4)))
    cap = draw(ints(1, 4))
    nsend = 1 if ctype == 3 else draw(ints(1, 4))
    fibers = []
    total = 0
    for _ in range(nsend):
        ops = small_ops(draw, 1)
        n = draw(ints(1, T(tier, 12, 30)))
        # split the sender's messages into bursts with pauses
        while n > 0:
            b = draw(ints(1, n))
            ops.append(op("send", 0, b, draw(ints(0, 2))))
            n -= b
            total += b
            ops.extend(small_ops(draw, 1))
        fibers.append(ops)
    rops = small_ops(draw, 1)
    n = total
    while n > 0:
        b = draw(ints(1, n))
        # blocking receive, or the try_receive entry point polled with yield
        rops.append(op("recv" if draw(ints(0, 2)) else "tryrecv", 0, b, draw(ints(0, 2))))
        n -= b
        rops.extend(small_ops(draw, 1))
    pos = draw(ints(0, len(fibers)))
    fibers.insert(pos, rops)
    names = {0: "bounded_signal", 1: "bounded_spin", 2: "unbounded", 3: "unbounded_sp", 5: "unbounded_spin"}
    classes = ["threads=%d" % threads, names[ctype], "cap=%d" % (1 << cap) if ctype in (0, 1) else "cap=inf"]
    if any(o[0] == "tryrecv" for o in rops):
        classes.append("try_receive")
    return {"harness": "chan", "threads": threads, "cfg": {"nchan": 1, "chan_type0": ctype, "chan_cap0": cap}, "fibers": fibers, "classes": classes}


@st.composite
def select_case(draw, tier):
    """two channels created on one signal, one receiver that polls both with try_receive and sleeps on the signal"""
    ctype = draw(st.sampled_from([0, 2, 3]))
    threads = draw(ints(1, T(tier, 3, 4)))
    cfg = {"nchan": 2, "chan_type0": ctype, "chan_type1": ctype, "chan_cap0": draw(ints(1, 3)), "chan_cap1": draw(ints(1, 3)), "shared_signal": 1}
    fibers = []
    total = 0
    for c in (0, 1):
        for _ in range(1 if ctype == 3 else draw(ints(1, 2))):
            ops = small_ops(draw, 1)
            n = draw(ints(1, T(tier, 8, 20)))
            while n > 0:
                b = draw(ints(1, n))
                ops.append(op("send", c, b, draw(ints(0, 2))))
                n -= b
                total += b
                ops.extend(small_ops(draw, 1))
            fibers.append(ops)
    rops = small_ops(draw, 1)
    n = total
    while n > 0:
        b = draw(ints(1, n))
        rops.append(op("selrecv", 0, b, draw(ints(0, 2))))
        n -= b
        rops.extend(small_ops(draw, 1))
    fibers.insert(draw(ints(0, len(fibers))), rops)
    names = {0: "bounded_signal", 2: "unbounded", 3: "unbounded_sp"}
    return {"harness": "chan", "threads": threads, "cfg": cfg, "fibers": fibers, "classes": ["threads=%d" % threads, names[ctype], "two_channels_one_signal"]}


@st.composite
def mchan_case(draw, tier):
    threads = draw(ints(1, T(tier, 3, 4)))
    cap = draw(ints(1, 3))
    nsend = draw(ints(1, 4))
    nrecv = draw(ints(1, 3))
    counts = [draw(ints(1, T(tier, 8, 20))) for _ in range(nsend)]
    total = sum(counts)
    # split total among receivers
    cuts = sorted(draw(ints(0, total)) for _ in range(nrecv - 1))
    rc = [b - a for a, b in zip([0] + cuts, cuts + [total])]
    fibers = []
    for c in counts:
        fibers.append(small_ops(draw, 1) + [op("msend", 0, c, draw(ints(0, 2)))])
    for c in rc:
        if c > 0:
            fibers.append(small_ops(draw, 1) + [op("mrecv", 0, c, draw(ints(0, 2)))])
    order = draw(st.permutations(list(range(len(fibers)))))
    fibers = [fibers[i] for i in order]
    classes = ["threads=%d" % threads, "senders=%d" % nsend, "receivers=%d" % sum(1 for c in rc if c > 0), "cap=%d" % (1 << cap)]
    return {"harness": "mchan", "threads": threads, "cfg": {"mchan_cap": cap}, "fibers": fibers, "classes": classes}


# --------------------------------------------------------------------------- C20 (b)
@st.composite
def msig_case(draw, tier):
    threads = draw(ints(1, T(tier, 3, 4)))
    nw = draw(ints(1, T(tier, 5, 8)))   # total waits
    nr = draw(ints(0, nw))
    nstrict = draw(ints(0, nw - nr)) if threads >= 2 else 0
    # distribute waits over 1..4 waiter fibers
    nwf = draw(ints(1, min(4, nw)))
    waits = [1] * nwf
    for _ in range(nw - nwf):
        waits[draw(ints(0, nwf - 1))] += 1
    fibers = []
    for w in waits:
        ops = []
        for _ in range(w):
            ops.extend(small_ops(draw, 1))
            ops.append(op("mwait"))
        fibers.append(ops)
    nrf = draw(ints(1, 3))
    rops = [[] for _ in range(nrf)]
    # raise_strict spins (without yielding its kernel thread) until a waiter exists: fibers that use it
    # must never be able to occupy every kernel thread at once
    strict_fibers = list(range(min(nrf, max(1, threads - 1))))
    for k in ["mraise"] * nr + ["mstrict"] * nstrict:
        f = rops[draw(st.sampled_from(strict_fibers))] if k == "mstrict" else rops[draw(ints(0, nrf - 1))]
        f.extend(small_ops(draw, 1))
        f.append(op(k))
    fibers.extend(r for r in rops if r)
    order = draw(st.permutations(list(range(len(fibers)))))
    fibers = [fibers[i] for i in order]
    fibers.append([op("mctl")])
    classes = ["threads=%d" % threads, "strict" if nstrict else "no_strict"]
    return {"harness": "msig", "threads": threads, "cfg": {"msig": 1}, "fibers": fibers, "classes": classes}


# --------------------------------------------------------------------------- C09
DUR_US = [0, 1, 999, 1000, 4999, 5000, 7000, 3000, 3000, 3000, 12000, 25000, 999999, 999998, 500000]


@st.composite
def sleep_case(draw, tier):
    threads = draw(ints(1, T(tier, 3, 4)))
    nf = draw(ints(1, T(tier, 8, 12)))
    long_one = draw(st.sampled_from([None, None, None, None, None, None, (1, 1), (2, 999999), (1, 0), (1, 1), (2, 999999), (1, 0),
                                     # around 2^32 microseconds, and far beyond (the virtual clock then advances 50 000 - 400 000 ticks of 5 ms per quiescence)
                                     (4294, 967295), (4294, 967296), (4295, 0), (8590, 5), (17180, 0)]))
    g = draw(ints(1, 4)) if long_one is None else draw(ints(40, 120)) if long_one[0] < 1000 else draw(ints(50000, 400000))
    backlog = draw(st.booleans())
    fibers = []
    shared = draw(st.sampled_from(DUR_US))
    for i in range(nf):
        ops = []
        for _ in range(draw(ints(1, 3))):
            if backlog and draw(ints(0, 3)) == 0:
                ops.append(op("work", draw(ints(1, 5))))
                ops.append(op("tick", draw(st.sampled_from([1, 3, 30, 250]))))
            kind = draw(ints(0, 3))
            us = shared if draw(st.booleans()) else draw(st.sampled_from(DUR_US))
            if kind == 3:
                ops.append(op("sleep", 3, 1 if long_one else 0, 0))
            else:
                ops.append(op("sleep", kind, 0, us))
        fibers.append(ops)
    if long_one is not None:
        # (usleep takes a 32-bit argument: durations of an hour go through fiber_sleep, nanosleep and sleep)
        fibers.append([op("sleep", draw(st.sampled_from([0, 2, 3])) if long_one[0] >= 1000 else draw(ints(0, 2)), long_one[0], long_one[1])])
    # finite tickers: other fibers keep running while the rest sleeps
    for _ in range(draw(ints(0, 2))):
        fibers.append([op("yield", draw(ints(1, 30)))])
    classes = ["threads=%d" % threads, "backlog" if backlog else "no_backlog", "sub_second" if not long_one else "seconds" if long_one[0] < 1000 else "hours"]
    if draw(ints(0, 5)) == 0:
        # a fiber marks its kernel thread with fiber_io_lock_thread() for a stretch of plain work: sleeps on the other threads are not concerned
        fibers.append([op("lockwork", draw(ints(5, 60))) for _ in range(draw(ints(1, 4)))])
        classes.append("lock_thread")
    if (long_one is None or long_one[0] < 1000) and draw(ints(0, 4)) == 0:
        # fibers that poll with fiber_yield for something a sleeper does after waking: the kernel threads never go idle, the
        # sleeper depends on the polls made from inside fiber_yield
        npoll = draw(ints(1, 3))
        fibers.append([op("sleep", draw(ints(0, 2)), 0, draw(st.sampled_from([1000, 5000, 12000, 25000]))), op("setflag", 0)])
        for _ in range(npoll):
            fibers.append(small_ops(draw, 1) + [op("pollflag", 0)])
        classes.append("pollers=%d" % npoll)
    return {"harness": "sleep", "threads": threads, "cfg": {"sleepers": 1, "ticks_per_quiescence": g}, "fibers": fibers, "classes": classes}


# --------------------------------------------------------------------------- C10
@st.composite
def yield_case(draw, tier):
    threads = draw(st.sampled_from([1, 1, 1, 2, 3]))
    nf = draw(ints(2, 8))
    n_initial = draw(ints(2, nf))
    fibers = []
    deferred = list(range(n_initial, nf))
    for i in range(nf):
        ops = []
        for _ in range(draw(ints(1, 4))):
            k = draw(st.sampled_from(["yield", "yield", "work"]))
            if k == "yield":
                ops.append(op("yield", draw(st.sampled_from([1, 3, 20, 60, 120, 200]))))
            else:
                ops.append(op("work", draw(ints(1, 8))))
        fibers.append(ops)
    # each deferred fiber is spawned exactly once by some earlier fiber
    for d in deferred:
        by = draw(ints(0, d - 1))
        pos = draw(ints(0, len(fibers[by])))
        fibers[by].insert(pos, op("spawn", d))
    classes = ["threads=%d" % threads, "fibers>=3" if nf >= 3 else "fibers=2", "deferred_spawn" if deferred else "all_at_start"]
    if draw(ints(0, 5)) == 0:
        # a fiber that called fiber_io_lock_thread() and goes on yielding
        t3 = draw(ints(0, nf - 1))
        fibers[t3].insert(draw(ints(0, len(fibers[t3]))), op("lockyield", draw(st.sampled_from([3, 20, 60]))))
        classes.append("lock_thread_then_yield")
    if draw(ints(0, 5)) == 0:
        # other library calls made between the yields: one fiber holds a fiber spinlock across a few yields, others try it
        h = draw(ints(0, nf - 1))
        fibers[h].insert(draw(ints(0, len(fibers[h]))), op("sphold", draw(ints(1, 3))))
        for _ in range(draw(ints(1, 3))):
            t2 = draw(ints(0, nf - 1))
            fibers[t2].insert(draw(ints(0, len(fibers[t2]))), op("sptry"))
        classes.append("spinlock_trylock_between_yields")
    if n_initial >= 3 and draw(ints(0, 5)) == 0:
        # a fiber that keeps yielding while another fiber is blocked in fiber_join on it
        t = draw(ints(1, n_initial - 1))
        j = draw(ints(0, t - 1))
        fibers[t] = [op("target", -1)] + fibers[t] + [op("yield", draw(st.sampled_from([60, 120, 200])))]
        fibers[j].insert(draw(ints(0, min(1, len(fibers[j])))), op("join", t))
        classes.append("yielding_while_joined")
    if draw(ints(0, 11)) == 0:
        # many ready fibers on the thread: the first fiber starts a crowd of yielders before anything else; the program
        # fibers then yield long enough for several rounds of the whole crowd
        n = draw(st.sampled_from([40, 130, 260, 300, 520]))
        k = draw(ints(6, 9))
        fibers[0].insert(0, op("crowd", n, k))
        for f in fibers[:3]:
            f.append(op("yield", draw(ints(4, 8))))
        classes.append("crowd>255" if n > 255 else "crowd<=255")
    return {"harness": "yield", "threads": threads, "cfg": {"defer_from": n_initial}, "fibers": fibers, "classes": classes}


# --------------------------------------------------------------------------- C01 / C02(b): mixed programs
@st.composite
def mixed_case(draw, tier, storm=False):
    threads = draw(ints(2 if storm else 1, T(tier, 3, 4)))
    nf = draw(ints(3, T(tier, 8, 12)))
    cfg = {"nmutex": 2, "nsem": 1, "sem_init0": draw(ints(1, 2)), "nrw": 1, "nspin": 1, "sleepers": 1, "ticks_per_quiescence": draw(ints(1, 3))}
    fibers = [[] for _ in range(nf)]
    kinds_used = set()
    self_contained = ["lock", "trylock", "swaitpost", "strywait", "rd", "wr", "tryrd", "trywr", "slock", "strylock", "yield", "work", "sleep", "lifecycle"]
    if storm:
        self_contained = ["yield", "yield", "work", "lock", "swaitpost"]
    for f in fibers:
        for _ in range(draw(ints(1, T(tier, 6, 12)))):
            k = draw(st.sampled_from(self_contained))
            kinds_used.add(k)
            if k in ("lock", "trylock"):
                f.append(op(k, draw(ints(0, 1)), draw(ints(0, 2)), draw(ints(0, 3))))
            elif k in ("swaitpost", "strywait", "rd", "wr", "tryrd", "trywr"):
                f.append(op(k, 0, draw(ints(0, 2)), draw(ints(0, 3))))
            elif k in ("slock", "strylock"):
                f.append(op(k, 0, 0, draw(ints(0, 3))))
            elif k == "yield":
                f.append(op("yield", draw(ints(1, 3))))
            elif k == "work":
                f.append(op("work", draw(ints(1, 6))))
            elif k == "lifecycle":
                f.append(op("lifecycle", draw(ints(0, 5))))
            else:
                if draw(ints(0, 2)) == 0:
                    # virtual time passes unread while the fiber is busy (expirations pile up), then it sleeps
                    f.append(op("tick", draw(st.sampled_from([1, 3, 30, 250]))))
                f.append(op("sleep", draw(ints(0, 2)), 0, draw(st.sampled_from([0, 1000, 3000, 3000, 7000]))))
    extra = []
    if not storm:
        # barrier group: its members only run self-contained gadgets otherwise
        if draw(st.booleans()):
            cnt = draw(ints(2, min(3, nf)))
            rounds = draw(ints(1, 3))
            cfg["nbar"] = 1
            cfg["bar_count0"] = cnt
            for i in range(cnt):
                for _ in range(rounds):
                    fibers[i].insert(draw(ints(0, len(fibers[i]))), op("bwait", 0))
            kinds_used.add("barrier")
        # channel: unbounded with signal, senders have lower index than the receiver (no cycles)
        if draw(st.booleans()) and nf >= 3:
            recv = nf - 1
            cfg.update({"nchan": 1, "chan_type0": 2, "chan_cap0": 1})
            total = 0
            for snd in draw(st.lists(ints(0, nf - 2), min_size=1, max_size=2, unique=True)):
                n = draw(ints(1, 5))
                fibers[snd].insert(draw(ints(0, len(fibers[snd]))), op("send", 0, n, 0))
                total += n
            fibers[recv].append(op("recv", 0, total, 0))
            kinds_used.add("channel")
        # join pairs: fresh target fibers (self-contained bodies) + actors appended to existing fibers
        for _ in range(draw(ints(0, 2))):
            t = len(fibers) + len(extra)
            extra.append([op("target", -1)] + small_ops(draw, 3))
            actor = draw(ints(0, nf - 1))
            fibers[actor].append(draw(st.sampled_from([op("join", t, 0), op("tryjoin", t, 0, 1), op("detach", t)])))
            kinds_used.add("join")
        # cond: waiters + signallers + controller
        if draw(st.booleans()):
            cfg["cond"] = 1
            for w in draw(st.lists(ints(0, nf - 1), min_size=1, max_size=2, unique=True)):
                fibers[w].append(op("cwait", 1))
            sg = draw(ints(0, nf - 1))
            fibers[sg].insert(draw(ints(0, len(fibers[sg]))), op(draw(st.sampled_from(["csignal", "cbcast"])), draw(ints(0, 1))))
            extra.append([op("ctl")])
            kinds_used.add("cond")
        # multi-signal
        if draw(st.booleans()):
            cfg["msig"] = 1
            w = draw(ints(0, nf - 1))
            fibers[w].append(op("mwait"))
            r = draw(ints(0, nf - 1))
            if r != w:
                fibers[r].insert(draw(ints(0, len(fibers[r]))), op("mraise"))
            extra.append([op("mctl")])
            kinds_used.add("msig")
        # descriptor waits: a pipe or socketpair with a writer fiber (closes at the end) and a reader fiber (reads to EOF)
        if draw(st.booleans()):
            cfg["nstream"] = 1
            cfg["stream_type0"] = draw(ints(0, 1))
            w = small_ops(draw, 1)
            left = draw(st.sampled_from([1, 10, 300, 5000]))
            total_io = left
            while left > 0:
                n = draw(ints(1, left))
                w.append(op("iowr", 0, n, draw(ints(0, 1)) | (_chunk_for(draw, n) << 4)))   # ("wr" is the rwlock op in mixed programs)
                w.extend(small_ops(draw, 1))
                left -= n
            w.append(op("wclose", 0))
            extra.append(w)
            extra.append(small_ops(draw, 1) + [op("rdeof", 0, 0, draw(ints(0, 1)) | (_chunk_for(draw, total_io) << 4))])
            kinds_used.add("fd")
    # targets must keep the indexes assigned above: extra fibers follow in order
    allf = fibers + extra
    classes = ["threads=%d" % threads, "storm" if storm else "mixed"] + sorted(k for k in kinds_used if k in ("barrier", "channel", "join", "cond", "msig", "sleep", "fd"))
    case = {"harness": "mixed", "threads": threads, "cfg": cfg, "fibers": allf, "classes": classes}
    if storm and draw(ints(0, 9)) == 0:
        # a burst of runnable fibers created at once on one kernel thread (backlog of one run queue up to tens of thousands;
        # whether it really piles up depends on how fast the other threads steal: several schedules each)
        n = draw(st.sampled_from([300, 2100, 20000, 40000]))
        fibers[0].insert(0, op("crowd", n, draw(ints(1, 2))))
        classes.append("burst_" + crowd_class(n))
        case.update(crowd_limits(n))
        case["max_sched"] = 8
    return case


def rt_spec(pid, parts_fn, examples, rule):
    return Spec(pid, "runner_rt", parts_fn, examples, rule=rule, assumptions=RT_ASSUME, technique=RT_TECH)


def one_part(name, strat_fn, q_sched=32, t_sched=160, tso_thorough=1):
    def parts(tier):
        return [{"name": name, "strategy": strat_fn(tier), "nsched": T(tier, q_sched, t_sched), "args": ["--tso", tso_thorough]}]
    return parts


SCHED_TXT = ("each program runs under 32 (quick) / 160 (thorough) generated schedules: 1 fair baseline, then random walk p in {1/4..1/256}, PCT depth 1-5 and "
             "targeted-delay PCT whose change points fall on accesses to the object under test, stalls of one or two kernel threads at one of their accesses; about a third of the "
             "schedules run with x86-TSO store buffers (not the descriptor, sleep and yield harnesses); distinct = distinct (program, decision list). ")

def c03_parts2(tier):
    # the mutex is also released on behalf of a fiber that went to wait on a condition (deferred unlock, possibly by the kernel
    # thread's idle fiber): a fifth of the budget runs the condition-variable programs, whose occupancy ghost watches that mutex
    return [dict(one_part("mutex", mutex_case)(tier)[0], share=0.8), dict(one_part("cond", cond_case)(tier)[0], share=0.2)]
SPECS["C03"] = rt_spec("C03", c03_parts2, {"quick": 30000, "thorough": 150000},
    "Hypothesis generates fiber programs over 1-2 mutexes (lock/trylock sections whose bodies read-modify-write a plain cell and may yield, plus yield/work) "
    "on 1-3(4) virtual kernel threads; " + SCHED_TXT + "Non-trivial = at least one lock call was contended (the locker was suspended in the waiter queue and "
    "resumed by an unlock); 'early_wake' in the histogram counts unlocks that found the locker between its decrement and its context switch.")
SPECS["C06"] = rt_spec("C06", one_part("sem", sem_case), {"quick": 30000, "thorough": 150000},
    "Programs over 1-2 semaphores (initial 0-3): wait{body}post, trywait{body}post, unpaired post (first in a fiber) and unpaired wait, missing units supplied by a late "
    "poster fiber so that waiters really block; " + SCHED_TXT + "Oracle: admissions <= initial + posts begun at every instant, trywait never suspends, value == "
    "initial + posts - admissions at quiescence, nobody stranded. Non-trivial = at least one wait blocked and was released by a post.")
SPECS["C07"] = rt_spec("C07", one_part("rwlock", rwlock_case), {"quick": 30000, "thorough": 150000},
    "Programs of rd/wr/tryrd/trywr sections (bodies may yield) over 1-2 rwlocks, biased towards 'writer waits while readers keep arriving' and 'readers queue behind a "
    "writer'; " + SCHED_TXT + "Oracle: occupancy ghost (writers <= 1, writers*readers == 0), try variants never suspend and succeed only when legal, writer's data "
    "visible to next holders, state word 0 and nobody stranded at quiescence. Non-trivial = at least one lock call blocked and was admitted by an unlock.")
SPECS["C12"] = rt_spec("C12", one_part("barrier", barrier_case), {"quick": 30000, "thorough": 150000},
    "count 1-5(6), exactly count fibers, 1-6 back-to-back rounds with optional yield/work between, optionally a second independent group; " + SCHED_TXT +
    "Oracle: on return from the k-th wait all count fibers have entered their k-th wait, exactly one serial fiber per round, everyone returns. "
    "Non-trivial = >= 2 rounds and at least one participant actually blocked.")
def c18_parts(tier):
    # the per-descriptor locks of the event layer are fiber spinlocks too (anchor src/fiber_event_native.c): descriptor programs,
    # in particular close racing with a fiber registering on the same descriptor, exercise lock/unlock pairing there
    return [dict(one_part("spin", spin_case)(tier)[0], share=0.65),
            {"name": "fd_locks", "strategy": io_case(tier, shapes=("close_under_waiter", "close_under_waiter", "accept", "streams")), "nsched": T(tier, 24, 96),
             "args": ["--tso", 0, "--soft", 3000000, "--hard", 30000000], "share": 0.35}]
SPECS["C18"] = rt_spec("C18", c18_parts, {"quick": 30000, "thorough": 150000},
    "(a) lock/trylock sections with non-yielding bodies over 1-2 spinlocks whose ticket/users words start at 0, 2^31-1 or just below 2^32 (wrap-around); " + SCHED_TXT +
    "Oracle: occupancy ghost, the k-th acquisition is served ticket start+k (FIFO ticket order, trylock takes a ticket too), trylock and the holder are never "
    "suspended, ticket == users at the end. (b) a third of the budget: the descriptor programs of C08, biased to descriptors closed under a waiter and descriptor numbers reused afterwards (the event layer guards every descriptor with a fiber spinlock; "
    "close racing with a registering fiber on 2-3 kernel threads), oracle there: every blocked fiber is resumed, no thread spins for ever on a descriptor lock. "
    "Non-trivial = a contender spun or a trylock failed (a), a call really suspended its fiber (b).")
SPECS["C05"] = rt_spec("C05", one_part("cond", cond_case), {"quick": 30000, "thorough": 150000},
    "1-4(6) waiters doing bare waits (no predicate loop, 1-3 immediate re-waits), 1-3(5) signaller fibers issuing signal/broadcast both holding the user mutex and without it, "
    "a parked controller that runs only at quiescence; " + SCHED_TXT + "Oracle: every signal/broadcast begun while a definitely registered waiter exists creates an obligation, "
    "waits returned >= obligations at each quiescence (no lost signal; proof of soundness in DESIGN 4/C05), waits returned <= signals + broadcast coverage (no release "
    "without signal), user mutex owned on return (occupancy ghost). Non-trivial = at least one obligation.")
SPECS["C04"] = rt_spec("C04", one_part("join", join_case), {"quick": 30000, "thorough": 150000},
    "1-3(5) targets with generated pre-finish work, each with one scenario: sole join, tryjoin-until-success, detach (before/after finish), two contenders on a gated target "
    "(join+join, join+tryjoin), join/tryjoin after detach on a gated target, detach while another fiber is blocked in join; " + SCHED_TXT +
    "Oracle: success only after the target's function returned and with its token, <= 1 success per target, join after detach fails, destroy hooks: reclaimed exactly once "
    "and by quiescence, shadow heap: no touch after reclaim. Non-trivial = a join/tryjoin actually raced with completion (joiner slept, or target waited, or tryjoin retried).")
@st.composite
def chan_after_msig_case(draw, tier):
    """the channel receiver has slept on a multi-signal before it blocks on the channel's signal (both use the fiber's
    scratch word), senders raise from other kernel threads"""
    threads = draw(ints(2, T(tier, 3, 4)))
    ctype = draw(st.sampled_from([0, 2]))
    nsend = draw(ints(1, 3))
    fibers = []
    total = 0
    for _ in range(nsend):
        n = draw(ints(1, 8))
        total += n
        fibers.append(small_ops(draw, 2) + [op("send", 0, n, draw(ints(0, 2)))])
    recv = small_ops(draw, 1) + [op("mwait")]
    left = total
    while left > 0:
        b = draw(ints(1, left))
        recv.append(op("recv", 0, b, draw(ints(0, 1))))
        if draw(ints(0, 2)) == 0:
            recv.append(op("mwait"))
        left -= b
    fibers.insert(draw(ints(0, len(fibers))), recv)
    nwaits = sum(1 for o in recv if o[0] == "mwait")
    fibers.append(small_ops(draw, 2) + [op("mraise") for _ in range(draw(ints(0, nwaits)))])
    fibers.append([op("mctl")])
    # the receiver may sit in mwait until quiescence (controller): a bounded channel must be able to hold everything meanwhile
    cap = 1
    while (1 << cap) < total:
        cap += 1
    cfg = {"nchan": 1, "chan_type0": ctype, "chan_cap0": cap, "msig": 1, "nmutex": 0}
    return {"harness": "mixed", "threads": threads, "cfg": cfg, "fibers": fibers, "classes": ["threads=%d" % threads, "receiver_slept_on_multi_signal_before"]}


def c11_parts(tier):
    return [{"name": "chan", "strategy": chan_case(tier), "nsched": T(tier, 32, 160), "args": ["--tso", 1], "share": 0.4},
            {"name": "select", "strategy": select_case(tier), "nsched": T(tier, 32, 160), "args": ["--tso", 1], "share": 0.15},
            {"name": "mchan", "strategy": mchan_case(tier), "nsched": T(tier, 32, 160), "args": ["--tso", 1], "share": 0.25},
            {"name": "chan_after_msig", "strategy": chan_after_msig_case(tier), "nsched": T(tier, 32, 160), "args": ["--tso", 1], "share": 0.2}]
SPECS["C11"] = rt_spec("C11", c11_parts, {"quick": 30000, "thorough": 150000},
    "bounded channel (2^1..2^4 slots, with signal and spinning), unbounded MPSC channel (with signal / spinning), single-producer channel: 1-4 senders (1 for SP), one receiver, "
    "1-12(30) messages per sender in bursts; multi channel: 1-4 senders, 1-3 receivers, capacity 2-8; " + SCHED_TXT + "Oracle: multiset(received) == multiset(sent), per-sender "
    "order, sends completed - receives begun <= capacity, nobody stranded at quiescence. Non-trivial = a receiver (or multi-channel sender) really blocked and was woken, or >= 2 kernel threads.")
def c20_parts(tier):
    return [{"name": "msig", "strategy": msig_case(tier), "nsched": T(tier, 32, 160), "args": ["--tso", 1]}]
SPECS["C09"] = rt_spec("C09", one_part("sleep", sleep_case, 24, 96, 0), {"quick": 30000, "thorough": 150000},
    "1-8(12) sleepers on 1-3(4) kernel threads through sleep/usleep/nanosleep/fiber_sleep with durations {0,1us,999us,1ms,4.999ms,5ms,7ms,3ms(shared),12ms,25ms,1s+1us,2s+999999us}, "
    "woken fibers scribble their stack and sleep again; virtual clock: g ticks per quiescence; 'backlog' class lets ticks pile up unread while fibers are busy; finite ticker fibers; "
    + SCHED_TXT + "Oracle: virtual time between call and return >= requested, exactly-once wake (pending-wake ghost), no real libc sleep reached, shadow heap + crash capture for the "
    "dead-frame walk. Non-trivial = at least one sleep call completed.")
SPECS["C10"] = rt_spec("C10", one_part("yield", yield_case, 8, 24, 0), {"quick": 30000, "thorough": 150000},
    "2-8 fibers that only yield (budgets up to 200 per op) / work / spawn deferred fibers, on 1 kernel thread (60%) or 2-3; " + SCHED_TXT +
    "Oracle from the hook trace: while a fiber is ready on a kernel thread, at most 2*(fibers+1)+2 other fibers are switched in there before it runs. "
    "Non-trivial = >= 3 simultaneously ready fibers and total yield budget >= 5x the bound.")
def c01_parts(tier):
    return [{"name": "mixed", "strategy": mixed_case(tier), "nsched": T(tier, 32, 160), "args": ["--tso", 1], "share": 0.8},
            {"name": "storm", "strategy": mixed_case(tier, storm=True), "nsched": T(tier, 32, 160), "args": ["--tso", 1], "share": 0.2}]
SPECS["C01"] = rt_spec("C01", c01_parts, {"quick": 30000, "thorough": 150000},
    "mixed programs: random parallel composition of terminating gadgets over mutex, semaphore, rwlock, spinlock, barrier, channel+signal, join/tryjoin/detach, cond, multi-signal, "
    "virtual-time sleeps, yield; plus create/yield storms; " + SCHED_TXT + "Oracle: running-on map fed by the switch hooks (target of every switch must be SAVED, destroy only of a SAVED "
    "DONE fiber, once), pending-wake ghost, shadow heap (no access to a reclaimed control block or stack), all sub-oracles. Non-trivial = >= 2 kernel threads and at least one steal; "
    "'early_wake' counts wake-ups that arrived before the sleeper had switched away.")


# =========================================================================== thread-level structures
DS_ASSUME = ["x86-64, clang -O1 build of the current working tree with asserts on",
             "interleavings at instrumented-access granularity under SC and under an x86-TSO store-buffer model (FIFO buffers, store->load reordering only, bounded delay)",
             "in TSO mode an operation has responded once its stores are globally visible (operation boundaries act as fences); orderings inside one operation are explored",
             "callers respect the documented roles (single consumer / single pusher / owner-only push+pop, one hazard record per thread)"]
DS_TECH = ("property-based testing: Hypothesis-generated per-thread operation lists x generated schedules (SC + x86-TSO) under an owned scheduler; "
           "oracle = Wing-Gong linearizability check against a sequential model for short histories + exactly-once / conservation / real-time-order invariants, shadow heap for use-after-reclaim")
DS_SCHED = ("every case runs under 48 (quick) / 256 (thorough) generated schedules (fair, random walk, PCT, targeted delay on the structure's words), about a third of them with "
            "x86-TSO store buffers; distinct = distinct (program, decision list). ")


def ds_spec(pid, parts_fn, examples, rule):
    return Spec(pid, "runner_rt", parts_fn, examples, rule=rule, assumptions=DS_ASSUME, technique=DS_TECH)


def ds_part(name, strat_fn, share=1.0):
    def mk(tier):
        return {"name": name, "strategy": strat_fn(tier), "nsched": T(tier, 48, 256), "args": ["--tso", 1], "share": share}
    return mk


@st.composite
def deque_case(draw, tier):
    nth = draw(ints(1, 3))
    shape = draw(st.sampled_from(["single_element_races", "growth_under_steal", "two_growths_one_steal", "deep_top", "mixed", "mixed"]))
    if shape == "deep_top":
        # top travels past the first array size while a slow thief still holds the old array
        owner = [op("push", draw(ints(280, 330))), op("pop", draw(ints(0, 3))), op("push", draw(ints(1, 40)))]
        fibers = [owner, [op("steal", draw(ints(270, 300)), 0)]] + [[op("steal", draw(ints(1, 3)), draw(ints(0, 1)))] for _ in range(max(1, nth - 1))]
        return {"harness": "deque", "threads": 1, "cfg": {}, "fibers": fibers, "classes": ["thieves=%d" % (len(fibers) - 1), shape]}
    if shape == "two_growths_one_steal":
        owner = [op("push", draw(ints(1, 40))), op("push", draw(ints(260, 300))), op("push", draw(ints(260, 300))), op("pop", draw(ints(0, 3)))]
        fibers = [owner] + [[op("steal", draw(ints(1, 3)), draw(ints(0, 1)))] for _ in range(nth)]
        return {"harness": "deque", "threads": 1, "cfg": {}, "fibers": fibers, "classes": ["thieves=%d" % nth, shape]}
    owner = []
    for _ in range(draw(ints(2, T(tier, 8, 14)))):
        if shape == "single_element_races":
            owner.append(op("push", 1))
            owner.append(op("pop", draw(ints(1, 2))))
        elif shape == "growth_under_steal":
            owner.append(op("push", draw(st.sampled_from([100, 200, 260, 300, 520]))))
            owner.append(op("pop", draw(ints(0, 6))))
        else:
            owner.append(op("push", draw(st.sampled_from([1, 1, 2, 3, 8, 40, 257]))))
            owner.append(op("pop", draw(ints(0, 5))))
    fibers = [owner]
    for _ in range(nth):
        fibers.append([op("steal", draw(ints(1, T(tier, 30, 80))), draw(ints(0, 2)))])
    return {"harness": "deque", "threads": 1, "cfg": {}, "fibers": fibers, "classes": ["thieves=%d" % nth, shape]}


@st.composite
def mpmc_case(draw, tier):
    if draw(ints(0, 3)) == 0:
        # "stalled popper": few records (small retire threshold), one popper doing a single pop, another thread cycling
        # enough push/pop pairs for scans and node reuse to happen while the first one is held back
        n = draw(ints(9, 16))
        worker = [op("push", n), op("pop", n), op("push", draw(ints(1, 4)))]
        # ... optionally going on until a recycled node is at the head again (ABA on fifo->head)
        for _ in range(draw(ints(0, 3))):
            worker.append(op(draw(st.sampled_from(["pop", "push"])), draw(ints(1, 6))))
        victim = small = [op("pop", draw(ints(1, 2)), draw(ints(0, 1)))]
        fibers = [worker, victim] if draw(st.booleans()) else [victim, worker]
        rec, far = draw(ints(0, 1)), draw(ints(0, 1))
        return {"harness": "mpmc", "threads": 1, "cfg": {"recycle": rec, "lazy_records": 1, "far": far}, "fibers": fibers,
                "classes": ["stalled_popper_shape", "recycle" if rec else "free", "lazy_records"] + (["far_addresses"] if far else [])}
    npush = draw(ints(1, 3))
    npop = draw(ints(1, 3))
    recycle = draw(ints(0, 1))
    lazy = draw(ints(0, 1))
    big = draw(st.booleans())   # enough retirements to trigger scans/reuse
    fibers = []
    for _ in range(npush):
        ops = []
        for _ in range(draw(ints(1, 3))):
            ops.append(op("push", draw(ints(1, 12 if big else 4))))
            if draw(st.booleans()):
                ops.append(op("pop", draw(ints(1, 3)), draw(ints(0, 1))))
        fibers.append(ops)
    for _ in range(npop):
        fibers.append([op("pop", draw(ints(1, 14 if big else 5)), draw(ints(0, 2)))])
    order = draw(st.permutations(list(range(len(fibers)))))
    fibers = [fibers[i] for i in order]
    classes = ["pushers=%d" % npush, "poppers=%d" % npop, "recycle" if recycle else "free", "lazy_records" if lazy else "records_upfront", "long" if big else "short"]
    far = draw(ints(0, 3)) == 0
    if far:
        classes.append("far_addresses")
    return {"harness": "mpmc", "threads": 1, "cfg": {"recycle": recycle, "lazy_records": lazy, "far": 1 if far else 0}, "fibers": fibers, "classes": classes}


POW2_BOUNDARIES = [8, 10, 15, 16, 20, 24, 31, 32]


@st.composite
def queue_case(draw, tier):
    kind = draw(st.sampled_from([0, 0, 1, 2, 2]))
    nprod = 1 if kind == 1 else draw(ints(1, 4))
    fibers = []
    nlanes = nprod
    if kind == 2 and draw(st.booleans()):
        # relaxed queue, any number of producers: 2..12 producer lanes spread over 2..5 threads (a lane has one owner; a
        # thread may own several lanes and pushes to them in any order)
        nprod = draw(ints(2, 5))
        nlanes = draw(ints(nprod, 12))
        owner = list(range(nprod)) + [draw(ints(0, nprod - 1)) for _ in range(nlanes - nprod)]
        owner = draw(st.permutations(owner))
        for t in range(nprod):
            mine = [l for l in range(nlanes) if owner[l] == t]
            ops = []
            for _ in range(draw(ints(1, 4))):
                ops.append(op("push", draw(ints(1, 4)), draw(ints(0, 2)), draw(st.sampled_from(mine))))
            fibers.append(ops)
    else:
        for lane in range(nprod):
            ops = []
            for _ in range(draw(ints(1, 3))):
                ops.append(op("push", draw(ints(1, 6)), draw(ints(0, 2)), lane))
            fibers.append(ops)
    cons = []
    for _ in range(draw(ints(1, 5))):
        k = draw(st.sampled_from(["pop", "pop", "poppush", "peek"] if kind == 0 else ["pop"]))
        cons.append(op(k, draw(ints(1, 6)), draw(ints(0, 2))))
    fibers.insert(draw(ints(0, len(fibers))), cons)
    names = {0: "mpsc", 1: "spsc", 2: "mpsc_relaxed"}
    cfg = {"qkind": kind, "lanes": nlanes}
    classes = [names[kind], "producers=%d" % nlanes if nlanes <= 4 else "producers>4"]
    if kind == 2 and draw(ints(0, 2)) == 0:
        # the relaxed queue's round-robin counter just below a power of two it is about to cross
        cfg["counter_base"] = 2 ** draw(st.sampled_from([16, 31, 32])) - draw(ints(0, 2 * nlanes + 2))
        classes.append("counter_near_2^k")
    return {"harness": "queue", "threads": 1, "cfg": cfg, "fibers": fibers, "classes": classes}


@st.composite
def ring_case(draw, tier):
    cap = draw(ints(1, 3))
    npush, npop = draw(ints(1, 3)), draw(ints(1, 3))
    fibers = []
    for _ in range(npush):
        fibers.append([op("tpush", draw(ints(2, 10)), draw(ints(0, 2)))])
    for _ in range(npop):
        fibers.append([op("tpop", draw(ints(2, 10)), draw(ints(0, 2)))])
    blocking = draw(ints(0, 4)) == 0
    if blocking:
        # the waiting entry points push()/pop(): pushes and pops balance, so nobody waits for ever
        total = draw(ints(2, 24))
        def split(n, k):
            cuts = sorted(draw(ints(0, n)) for _ in range(k - 1))
            return [b - a for a, b in zip([0] + cuts, cuts + [n])]
        fibers = [[op("bpush", c, draw(ints(0, 2)))] for c in split(total, npush) if c] + [[op("bpop", c, draw(ints(0, 2)))] for c in split(total, npop) if c]
    order = draw(st.permutations(list(range(len(fibers)))))
    fibers = [fibers[i] for i in order]
    # lifetime position of the indices: fresh, or just below a power-of-two boundary they are about to cross
    base = 0
    if draw(ints(0, 2)) == 0:
        base = 2 ** draw(st.sampled_from(POW2_BOUNDARIES)) - draw(ints(0, 2 << cap))
    return {"harness": "ring", "threads": 1, "cfg": {"cap_log2": cap, "index_base": base}, "fibers": fibers,
            "classes": ["cap=%d" % (1 << cap), "pushers=%d" % npush, "poppers=%d" % npop, "blocking_entry_points" if blocking else "try_entry_points", "index_base=%s" % ("0" if not base else "near_2^%d" % (base - 1).bit_length())]}


@st.composite
def workq_case(draw, tier):
    nth = draw(ints(2, 4))
    fibers = [[op("wpush", draw(ints(1, 10)), draw(ints(0, 3)), draw(ints(0, 3)))] for _ in range(nth)]
    # length of the worker session the case starts in: none, or one that has already handed out just under 2^k items
    base = 0
    if draw(ints(0, 2)) == 0:
        base = 2 ** draw(st.sampled_from(POW2_BOUNDARIES)) - draw(ints(1, 8))
    nested = draw(ints(0, 2)) == 0   # handlers of queue 0 push follow-up items onto a second queue: sessions of two queues nest on one thread
    return {"harness": "workq", "threads": 1, "cfg": {"session_base": base, "nested": 1 if nested else 0}, "fibers": fibers,
            "classes": ["threads=%d" % nth, "session_base=%s" % ("0" if not base else "near_2^%d" % (base - 1).bit_length()), "nested_queues" if nested else "one_queue"]}


@st.composite
def dwcas_case(draw, tier):
    kind = draw(st.sampled_from([0, 0, 1, 1, 2]))
    fibers = []
    if kind == 0:
        for _ in range(draw(ints(2, 4))):
            ops = []
            for _ in range(draw(ints(1, 4))):
                k = draw(st.sampled_from(["push", "pop", "poppush", "poppush"]))
                ops.append(op(k, draw(ints(1, 4)), draw(ints(0, 1))))
            fibers.append(ops)
    elif kind == 1:
        fibers.append([op("push", draw(ints(1, 5)), draw(ints(0, 2))) for _ in range(draw(ints(1, 3)))])
        for _ in range(draw(ints(1, 3))):
            fibers.append([op("pop", draw(ints(1, 8)), draw(ints(0, 2)))])
    else:
        for _ in range(draw(ints(2, 4))):
            ops = []
            for _ in range(draw(ints(1, 4))):
                if draw(st.booleans()):
                    ops.append(op("push", draw(ints(1, 4))))
                else:
                    ops.append(op("flush", draw(ints(0, 1))))
            fibers.append(ops)
    names = {0: "mpmc_lifo", 1: "dist_fifo", 2: "mpmc_stack"}
    return {"harness": "dwcas", "threads": 1, "cfg": {"dkind": kind}, "fibers": fibers, "classes": [names[kind], "threads=%d" % len(fibers)]}


@st.composite
def hazard_case(draw, tier):
    nth = draw(ints(1, 4))
    k = draw(ints(1, 4))
    far = draw(st.booleans())   # nodes from two arena regions more than 2^31 bytes apart
    fibers = []
    for t in range(nth):
        ops = []
        if t > 0 and draw(st.booleans()):
            ops.append(op("work", draw(ints(1, 5))))
            ops.append(op("reg"))
        for _ in range(draw(ints(2, T(tier, 14, 30)))):
            kind = draw(st.sampled_from(["protect", "protect", "deref", "release", "replace", "replace", "replace", "scan"]))
            if kind == "protect":
                ops.append(op("protect", draw(ints(0, 3)), draw(ints(0, k - 1))))
            elif kind in ("deref", "release"):
                ops.append(op(kind, draw(ints(0, k - 1))))
            elif kind == "replace":
                ops.append(op("replace", draw(ints(0, 3)), draw(ints(0, 3)) | (128 if far and draw(st.booleans()) else 0)))
            else:
                ops.append(op("scan"))
        fibers.append(ops)
    late = sum(1 for f in fibers if any(o[0] == "reg" for o in f))
    nested = draw(ints(0, 3)) == 0   # reclamation callbacks that retire a further node through the same record
    return {"harness": "hazard", "threads": 1, "cfg": {"slots": k, "nested_retire": 1 if nested else 0}, "fibers": fibers, "classes": ["records=%d" % nth, "slots=%d" % k, "late_registration" if late else "all_upfront", "far_addresses" if far else "near_addresses"]}


def c02_parts(tier):
    return [dict(ds_part("deque", deque_case)(tier), share=0.45),
            {"name": "storm", "strategy": mixed_case(tier, storm=True), "nsched": T(tier, 32, 160), "args": ["--tso", 1], "share": 0.1},
            {"name": "mixed", "strategy": mixed_case(tier), "nsched": T(tier, 32, 160), "args": ["--tso", 1], "share": 0.2},
            # condition waits: the one place where a fiber is enqueued for a wake-up before its own context switch has happened
            {"name": "cond", "strategy": cond_case(tier), "nsched": T(tier, 32, 160), "args": ["--tso", 1], "share": 0.1},
            # join/tryjoin/detach hand-shakes: the paths on which a waker polls with yield (and may be stolen) before it makes the peer runnable
            {"name": "join", "strategy": join_case(tier), "nsched": T(tier, 32, 160), "args": ["--tso", 1], "share": 0.15}]
SPECS["C02"] = Spec("C02", "runner_rt", c02_parts, {"quick": 30000, "thorough": 150000},
    rule=("(a) one owner thread with generated push bursts (1..520, crossing the 2^8->2^9->2^10 growth) and pops against 1-3 thieves stealing a generated number of times; classes: "
          "single-element owner/thief races, growth under steal, mixed; " + DS_SCHED + "Oracle: every value handed out was pushed, at most once; after a final owner drain every pushed value "
          "was handed out exactly once; pop_bottom may say EMPTY only if all pushed values were taken by operations already begun; ABORT is a no-op; shadow heap on stale arrays. "
          "(b) whole-runtime create/yield/lock storms, mixed programs (every wake-up path: mutex, semaphore, rwlock, condition, channel, signal, join, sleep), join/tryjoin/detach programs and condition-variable programs on 2-3(4) kernel threads with the pending-wake ghost and the owner-only-push ghost: a fiber made runnable is switched in exactly once per wake-up and nothing is "
          "left queued at quiescence. Non-trivial = (a) a successful steal together with an aborted CAS or a growth, (b) >= 2 kernel threads and at least one steal."),
    assumptions=DS_ASSUME + RT_ASSUME[2:], technique=DS_TECH + "; runtime part: pending-wake ghost over Hypothesis-generated fiber programs")
# the MPMC FIFO and the hazard pointers are one mechanism seen from two sides: each of the two checks spends a fifth of its budget on the other's harness
SPECS["C13"] = ds_spec("C13", lambda tier: [dict(ds_part("mpmc", mpmc_case)(tier), share=0.8), dict(ds_part("hazard", hazard_case)(tier), share=0.2)], {"quick": 30000, "thorough": 150000},
    "1-3 pushers (that may also pop) and 1-3 poppers, each with its own hazard record (registered up-front or lazily mid-run), unique values, nodes either freed by the gc callback "
    "(shadow-heap oracle) or recycled into the next push at once (ABA); " + DS_SCHED + "Oracle: FIFO linearizability with 'empty is excused if a push overlaps' for histories <= 40 ops; "
    "always: exactly-once after a final drain, nothing invented, real-time order of non-overlapping pushes, EMPTY only if nothing completed is pending or something overlaps. "
    "Non-trivial = >= 2 overlapping operations and at least one value transferred.")
SPECS["C14"] = ds_spec("C14", lambda tier: [dict(ds_part("hazard", hazard_case)(tier), share=0.75), dict(ds_part("mpmc", mpmc_case)(tier), share=0.25)], {"quick": 30000, "thorough": 150000},
    "1-4 records x 1-4 slots over 4 shared cells: protect (load, publish, fence, validating re-read), deref, release, replace (swap in a fresh node, retire the old one), explicit scan, "
    "records that register mid-run; allocation padding shapes the sorted address snapshot; " + DS_SCHED + "Oracle: the gc callback never sees a node with a protection validated before its "
    "retirement; no deref of a reclaimed node (ghost + shadow heap); retired_count <= threshold after each retire; after a closing phase of 2*N*K dummy retirements per record everything "
    "that record retired earlier has been reclaimed. Non-trivial = at least one validated protection and one reclamation.")
SPECS["C15"] = ds_spec("C15", lambda tier: [ds_part("queue", queue_case)(tier)], {"quick": 30000, "thorough": 150000},
    "strict MPSC (1-4 producers), SPSC, relaxed MPSC (one lane per producer) with one consumer doing trypop / peek / pop-then-repush on the returned node; " + DS_SCHED +
    "Oracle: FIFO linearizability (empty excused by an overlapping push) for strict queues with <= 40 ops; always exactly-once, nothing invented, per-producer FIFO, real-time order for "
    "the strict queues, EMPTY only if no completed push is pending or a push overlaps. Non-trivial = at least one overlapping pair and one value transferred.")
SPECS["C16"] = ds_spec("C16", lambda tier: [ds_part("ring", ring_case)(tier)], {"quick": 30000, "thorough": 150000},
    "capacity 2-8, 1-3 pushers and 1-3 poppers each issuing 2-10 trypush/trypop, so the slot index wraps several times; " + DS_SCHED + "Oracle: linearizability against a bounded FIFO "
    "where a failed trypush/trypop is legal if full/empty at the linearisation point or any operation overlaps; completed pushes - begun pops <= capacity at every instant; exactly-once "
    "after a final drain; real-time FIFO order. Non-trivial = an overlapping pair and index wrap-around.")
SPECS["C17"] = ds_spec("C17", lambda tier: [ds_part("workq", workq_case)(tier)], {"quick": 30000, "thorough": 150000},
    "2-4 threads pushing 1-10 items each; whoever is told START_WORKING pulls until EMPTY with generated work between pulls; " + DS_SCHED + "Oracle: worker sessions [START returned, "
    "call of the get_work that said EMPTY] are pairwise disjoint; every item handed out exactly once; nothing left queued when all threads are done. Non-trivial = a push was QUEUED while a worker was active.")
def c20_parts(tier):
    return [dict(ds_part("dwcas", dwcas_case)(tier), share=0.6),
            {"name": "msig", "strategy": msig_case(tier), "nsched": T(tier, 32, 160), "args": ["--tso", 1], "share": 0.4}]
SPECS["C20"] = Spec("C20", "runner_rt", c20_parts, {"quick": 30000, "thorough": 150000},
    rule=("(a) LIFO with push / pop / pop-and-immediately-repush-the-same-node by 2-4 threads, dist FIFO with one pusher and 1-3 poppers (RETRY is a no-op), flushable stack with push / "
          "lifo_flush / fifo_flush; the cmpxchg16b hook makes the snapshot->CAS window a scheduling point; " + DS_SCHED + "Oracle: linearizability against LIFO / FIFO / 'flush returns "
          "everything pushed since the last flush in (reverse) push order', exactly-once per push generation. (b) multi-signal on the fiber runtime: 1-4 waiter fibers, raise / raise_strict, "
          "a controller that raises for leftovers at quiescence; oracle: blocked-and-released waits == raises that reported a wake-up, never (blocked waiter and raised flag) at quiescence, "
          "pending-wake ghost for exactly-once. Non-trivial = overlapping operations with a transfer (a), a wait that really blocked (b)."),
    assumptions=DS_ASSUME + RT_ASSUME[2:], technique=DS_TECH + "; multi-signal part: counting model + quiescence oracle on the fiber runtime")


# --------------------------------------------------------------------------- C08
@st.composite
def io_case(draw, tier, shapes=("streams", "streams", "streams", "accept", "badfd", "close_under_waiter", "full_send_side")):
    threads = draw(ints(1, T(tier, 3, 4)))
    shape = draw(st.sampled_from(list(shapes)))
    fibers = []
    cfg = {}
    classes = ["threads=%d" % threads, shape]
    if shape == "full_send_side":
        # one socket used in both directions: A fills its own send side (the peer is not reading yet), then makes a blocking
        # read-type call for a message the peer sends only now; the peer drains A's data only after A has got the message.
        # A read-type call must wait for readability whatever the state of the descriptor's send side is.
        cfg = {"nstream": 1, "stream_type0": 0}
        if draw(st.booleans()):
            cfg["sndbuf"] = draw(st.sampled_from([4096, 16384]))
        m = draw(ints(1, 200))
        kind = draw(ints(0, 4))
        a = small_ops(draw, 1) + [op("wrfill", 0), op("setflag", 0), op("rd", 1, m, kind | (_chunk_for(draw, m) << 4)), op("setflag", 1), op("wclose", 0)]
        b = small_ops(draw, 1) + [op("waitflag", 0), op("wr", 1, m, draw(ints(0, 4)) | (_chunk_for(draw, m) << 4)), op("waitflag", 1), op("rdeof", 0, 0, draw(ints(0, 4)) | (3 << 4)), op("wclose", 1)]
        fibers = [a, b] if draw(st.booleans()) else [b, a]
        for _ in range(draw(ints(0, 2))):
            fibers.append([op("yield", draw(ints(1, 20)))])
        classes.append("read_kind=%d" % kind)
        return {"harness": "io", "threads": threads, "cfg": cfg, "fibers": fibers, "classes": sorted(set(classes))}
    if shape in ("streams", "close_under_waiter"):
        ns = draw(ints(1, 3))
        # several fibers that poll their descriptors with fiber_yield on one kernel thread, every writer blocked on a full buffer:
        # the pollers depend on the event polls made from inside fiber_yield
        pollers = shape == "streams" and draw(ints(0, 7)) == 0
        if pollers:
            ns = draw(ints(2, 3))
            threads = 1
            classes = ["threads=1", shape, "pollers_only"]
        cfg["nstream"] = ns
        if draw(st.booleans()):
            cfg["sndbuf"] = draw(st.sampled_from([1024, 4096, 16384]))
            classes.append("small_sndbuf")
        if draw(ints(0, 5)) == 0:
            # process configuration: soft descriptor limit below the hard one while the runtime starts, raised afterwards;
            # the streams get descriptor numbers around / above the initial soft limit
            soft = draw(st.sampled_from([32, 64, 100]))
            cfg["rlimit_soft"] = soft
            cfg["fd_floor"] = soft + draw(ints(-3, 40))
            classes.append("fds_above_initial_soft_limit")
        for s_ in range(ns):
            typ = draw(ints(0, 1))
            cfg["stream_type%d" % s_] = typ
            dirs = [0] if (typ == 1 or pollers or (shape == "close_under_waiter" and s_ == 0)) else draw(st.sampled_from([[0], [0, 1]]))
            shared_fd = len(dirs) == 2  # both ends carry a reader and a writer: no mode switches on them
            if len(dirs) == 2:
                classes.append("bidirectional_fd")
            for d in dirs:
                a = s_ * 2 + d
                if shape == "close_under_waiter" and s_ == 0 and d == 0:
                    # nobody writes: the reader blocks until another fiber closes its descriptor
                    # afterwards the reader goes on using descriptors: fresh socketpairs get the number that was just given back
                    # (only the reader: the closer cannot know when the reader has stopped using the old number)
                    tail = []
                    for _ in range(draw(ints(0, 2))):
                        tail += [op("yield", draw(ints(1, 3))), op("echopair", draw(ints(1, 40)))]
                    if tail:
                        fibers.append([op("yield", draw(ints(10, 40)))])   # somebody to switch to in between
                    # the waiter is a blocking read, or (one in four) the public wait entry point called with an empty event mask
                    first = op("rd", a, 100, draw(ints(0, 4))) if draw(ints(0, 3)) else op("waitnone", a, draw(st.sampled_from([0, 4, 8])))
                    if first[0] == "waitnone":
                        classes.append("wait_with_empty_mask")
                    fibers.append([first] + tail)
                    fibers.append(small_ops(draw, 2) + [op("yield", draw(ints(1, 4))), op("rclose", a)])
                    continue
                total = draw(st.sampled_from([1, 10, 500, 5000, 70000, 300000])) if tier == "thorough" or draw(ints(0, 3)) else draw(st.sampled_from([1, 10, 500, 5000]))
                if pollers:
                    total = draw(st.sampled_from([70000, 300000]))
                if total > 5000:
                    classes.append("larger_than_buffer")
                w = small_ops(draw, 1)
                r = small_ops(draw, 1)
                # optional non-blocking mode on either end (the loops then poll with yield)
                if not shared_fd and (pollers or draw(ints(0, 3)) == 0):
                    r.append(op("nbmode", a, 0, draw(st.sampled_from([1, 2]))))
                    classes.append("nonblocking_reader")
                    if not pollers and draw(st.booleans()):
                        half = max(1, total // 2)
                        r.append(op("rd", a, half, draw(ints(0, 4)) | (_chunk_for(draw, half) << 4)))
                        r.append(op("nbmode", a, 0, draw(st.sampled_from([3, 4]))))
                        classes.append("back_to_blocking")
                if not shared_fd and not pollers and draw(ints(0, 4)) == 0:
                    w.append(op("nbmode", a, 1, draw(st.sampled_from([1, 2]))))
                    classes.append("nonblocking_writer")
                left = total
                w_back = "nonblocking_writer" in classes and w and w[-1][0] == "nbmode" and draw(st.booleans())
                while left > 0:
                    n = draw(ints(1, left))
                    dw = draw(ints(0, 5)) == 0
                    w.append(op("wr", a, n, draw(ints(0, 4)) | (_chunk_for(draw, n) << 4) | ((1 if dw else 0) << 12)))
                    w.extend(small_ops(draw, 1))
                    left -= n
                    if w_back and left > 0:
                        # the writer's end goes back to blocking mode before the rest is written
                        w.append(op("nbmode", a, 1, draw(st.sampled_from([3, 4]))))
                        classes.append("writer_back_to_blocking")
                        w_back = False
                w.append(op("wclose", a))
                dw = draw(ints(0, 5)) == 0
                if dw:
                    classes.append("msg_dontwait")
                if not shared_fd and total > 5000 and not any(o[0] == "nbmode" for o in r + w) and draw(ints(0, 3)) == 0:
                    # the reader gives up early: reads a part and closes its end while the writer is (or will be) blocked on a full
                    # buffer - the writer must come back with an error
                    part = draw(st.sampled_from([1, 500, 5000]))
                    r.append(op("rd", a, part, draw(ints(0, 1)) | (_chunk_for(draw, part) << 4)))
                    r.extend(small_ops(draw, 2))
                    r.append(op("rclose", a))
                    classes.append("reader_closes_early")
                else:
                    r.append(op("rdeof", a, 0, draw(ints(0, 4)) | (_chunk_for(draw, total) << 4) | ((1 if dw else 0) << 12)))
                fibers.append(w)
                fibers.append(r)
    elif shape == "accept":
        nacc = draw(ints(1, 3))
        nconn = draw(ints(1, 3))
        per_conn = [draw(ints(1, 3)) for _ in range(nconn)]
        total = sum(per_conn)
        cuts = sorted(draw(ints(0, total)) for _ in range(nacc - 1))
        per_acc = [b - a for a, b in zip([0] + cuts, cuts + [total])]
        first = True
        for n in per_acc:
            ops = small_ops(draw, 1)
            if first:
                nbl = draw(st.sampled_from([0, 0, 1, 2]))   # the application may poll its listener in non-blocking mode
                ops.insert(0, op("listen", nbl))
                if nbl:
                    classes.append("nonblocking_listener")
                first = False
            if n > 0:
                ops.append(op("accept", n))
            fibers.append(ops)
        for n in per_conn:
            fibers.append(small_ops(draw, 2) + [op("connect", n, draw(ints(0, 2)))])
        classes.append("acceptors=%d" % sum(1 for n in per_acc if n > 0))
    else:
        for _ in range(draw(ints(1, 3))):
            fibers.append([op("badfd", draw(ints(0, 10)), draw(ints(0, 4))) for _ in range(draw(ints(1, 8)))])
    # finite tickers: other fibers keep running while some are blocked on descriptors
    for _ in range(draw(ints(0, 2))):
        fibers.append([op("yield", draw(ints(1, 20)))])
    order = list(range(len(fibers)))
    if shape != "accept":
        order = draw(st.permutations(order))
    fibers = [fibers[i] for i in order]
    return {"harness": "io", "threads": threads, "cfg": cfg, "fibers": fibers, "classes": sorted(set(classes))}


def _chunk_for(draw, n):
    # chunk sizes by code: 1, 7, 64, 500, 4096, 70000, 300000, 3 - keep the number of calls per op below ~400
    sizes = [1, 7, 64, 500, 4096, 70000, 300000, 3]
    ok = [c for c, sz in enumerate(sizes) if n / sz <= 400]
    return draw(st.sampled_from(ok))


SPECS["C08"] = rt_spec("C08", lambda tier: [{"name": "io", "strategy": io_case(tier), "nsched": T(tier, 24, 96), "args": ["--tso", 0, "--soft", 3000000, "--hard", 30000000]}],
    {"quick": 30000, "thorough": 150000},
    "real descriptors under virtual epoll timing: 1-3 streams (AF_UNIX stream socketpairs, optionally both directions on one descriptor and a small SO_SNDBUF, and pipes) each with a writer "
    "fiber (write/writev/send/sendto/sendmsg in generated chunk sizes 1 B .. 300 KB, some with MSG_DONTWAIT) that closes at the end and a reader fiber (read/readv/recv/recvfrom/recvmsg) that "
    "reads until EOF; descriptors switched to non-blocking mode with fcntl(O_NONBLOCK) / ioctl(FIONBIO) and back; a reader blocked on a descriptor that another fiber closes; an AF_UNIX "
    "listener with 1-3 accepting fibers and 1-3 connecting fibers; every shim called on invalid descriptors (-1, closed, rlimit-1, rlimit, INT_MAX); finite ticker fibers; " + SCHED_TXT +
    "Oracle: byte-sequence model per stream direction (complete, ordered, unduplicated, EOF only after everything was delivered, transfers never empty), EAGAIN never surfaces on a "
    "blocking-mode descriptor, calls on non-blocking descriptors never suspend the fiber, invalid descriptors give exactly the plain system call's -1/errno (differential) without assert, crash "
    "or out-of-bounds table access (shadow heap), every blocked fiber is resumed (quiescence). Non-trivial = a call really suspended its fiber, or hit EAGAIN in non-blocking mode, or an "
    "invalid-descriptor call was made.")

# --------------------------------------------------------------------------- C19 (no vsched)
import c19 as _c19
_s19 = Spec("C19", "ctx", lambda tier: [], {"quick": 1500, "thorough": 20000}, rule=_c19.RULE, assumptions=_c19.ASSUME, technique=_c19.TECH, build="ctx")
_s19.custom = lambda prop, tier, seed, we, sr: _c19.custom(prop, tier, seed, we, sr, _s19)
_s19.engine = "ctx_runner"
SPECS["C19"] = _s19

for _p, _h in (("C02", "deque"), ("C13", "mpmc"), ("C14", "hazard"), ("C15", "queue"), ("C16", "ring"), ("C17", "workq"), ("C20", "dwcas")):
    SPECS[_p].fuzz_harness = _h
    SPECS[_p].build = "rt fuzz"
    SPECS[_p].technique += "; plus a coverage-guided libFuzzer campaign over the same harness (bytes -> case + schedule), candidates re-executed by the deterministic runner"

# classes added after the seeding rounds (DESIGN 8.6); appended to the rule text that goes into the evidence files
COMMON_CLASSES = (" Fibers of the runtime harnesses now and then run a private life cycle (init, uncontended use with the try variants checked, destroy) of a mutex, semaphore, rwlock, "
                  "barrier, condition or spinlock on their own stack. One case in five initialises the objects under test in memory that is not zero (byte patterns), one in six asks fiber_create for another stack size; "
                  "malloc memory holds a byte pattern or the addresses of recently allocated blocks, depending on the schedule seed. Long-stall runs: a stall schedule in which some thread "
                  "busy-waited (cpu_relax) for the held one is run again with that thread held until the others have polled 2^26 + 2^22 times (up to 10^9 scheduling points); counted as long_stall_run.")
EXTRA_RULE = {
    "C01": "The descriptor gadget really transfers bytes (op iowr); bursts of up to 40 000 runnable fibers in the storms; ghost: a fiber is only ever pushed onto the run queue of the "
           "kernel thread the pusher runs on, and only the owner writes 'bottom' of a run queue.",
    "C02": "Whole-runtime part also: bursts of up to 40 000 runnable fibers created at once, join/tryjoin/detach programs; ghosts: owner-only push, single-writer monitor on 'bottom' of every run queue.",
    "C03": "Any number of waiters: a crowd class (40 .. 70 000 further fibers running into a held mutex). A fifth of the budget: condition-variable programs (deferred unlock of the user mutex, trylock pollers, a yield-poller that depends on the next owner).",
    "C04": "Both forms of join/tryjoin (with and without a place for the result); targets that return NULL, -1, -2, -3, 1, 2 instead of distinct tokens.",
    "C05": "Optionally 1-2 fibers that poll the condition's mutex with trylock; crowds of 40 .. 2100 further waiters (127/128/129, 256, 384, above 1024) released by signals, broadcasts and the controller.",
    "C06": "Semaphore values just below 2^8, 2^15, 2^16, 2^24, 2^30 that the posts then cross; crowds of 40 .. 70 000 fibers blocked on one semaphore; short-lived semaphores initialised, used and destroyed in between.",
    "C07": "Any number of simultaneous read holds (40 .. 70 000, and 4095/4096/4097) and of readers queued behind a writer and admitted by one hand-off.",
    "C08": "Also: soft descriptor limit below the hard one while the runtime starts and descriptors numbered above it; a reader that closes early under a blocked writer; fresh socketpairs that "
           "reuse a descriptor number just given back; writer switched back to blocking mode; verdict kernel_thread_blocked when a call reaches the kernel on a descriptor that is in blocking "
           "mode there and cannot complete at once.",
    "C09": "Durations around 2^32 microseconds and far beyond (4294.967295 s .. 17180 s) through fiber_sleep, nanosleep and sleep, the virtual clock then advancing 50 000 - 400 000 ticks per quiescence.",
    "C10": "Crowds of 40 .. 520 further yielders on the thread; a fiber that yields while another is blocked in fiber_join on it; fiber-spinlock lock/trylock calls between the yields; "
           "second oracle, valid with any number of kernel threads: a fiber_yield that returns without a switch while program fibers sit in that thread's run queues (read from the deques) "
           "counts as a bypass of each of them.",
    "C11": "Receivers use the blocking receive or the try_receive entry points polled with yield; a part of the budget: two channels created on one signal with one receiver that polls both and sleeps on the signal.",
    "C12": "Crowds of 40 .. 2100 further participants (the release loop then wakes more than 1024 fibers); barrier counter starting near 2^31 / 2^32.",
    "C13": "Stalled-popper shapes continue until a recycled node is at the head again. A fifth of the budget runs the hazard-pointer harness of C14 (the reclamation the queue relies on).",
    "C14": "A thread releases only the slots it used, so slots a record was created with stay as they were. A quarter of the budget runs the MPMC FIFO harness of C13 (the library's own user of "
           "hazard pointers: use_after_reclaim / duplicated values there are hazard-pointer failures too).",
    "C15": "Relaxed queue with up to 12 producer lanes spread over up to 5 threads.",
    "C16": "Indices starting just below 2^8 .. 2^32; cases that use the waiting entry points push()/pop() with balanced counts; lockfree_ring_buffer_size never above the capacity.",
    "C17": "Cases that start inside a worker session which has already handed out just under 2^8, 2^10, 2^15, 2^16, 2^20, 2^24, 2^31, 2^32 items; cases with two queues where the handler of an item of the first pushes onto the second (nested worker sessions on one thread).",
    "C18": "Descriptor part biased to descriptors closed under a waiter and numbers reused afterwards.",
    "C20": "The flushable stack is pushed through both mpmc_stack_push and mpmc_stack_push_timeout; reads let through inside the known-finding bracket are judged against known_findings.json.",
}
for _p, _t in EXTRA_RULE.items():
    SPECS[_p].rule += " " + _t
for _p in SPECS:
    if _p != "C19":
        SPECS[_p].rule += COMMON_CLASSES

NOT_APPLICABLE = {}
HOOK_COMMITS = ["0bef496"]
