#!/opt/veriftools/pyvenv/bin/python3
"""Regenerate MANIFEST.json from gen/props.py (single source of truth)."""
import json, os, sys
sys.path.insert(0, os.path.dirname(os.path.abspath(__file__)))
import props
V = os.path.dirname(os.path.dirname(os.path.abspath(__file__)))
ALL = ["C%02d" % i for i in range(1, 21)]
checks = []
for pid in ALL:
    if pid not in props.SPECS:
        continue
    s = props.SPECS[pid]
    checks.append({
        "property_id": pid,
        "quick_cmd": "./check %s quick" % pid,
        "thorough_cmd": "./check %s thorough" % pid,
        "evidence_file": "/verif/evidence/%s.json" % pid,
        "replay_cmd_template": "./check %s --replay {path}" % pid,
        "engine": getattr(s, "engine", "vsched"),
        "level_claimed": {"category": "exploration", "text": getattr(s, "level_text", None) or (
            "Randomised, seeded exploration: no violation in N distinct non-trivial (program, schedule) executions of the real library code "
            "under a scheduler the harness owns; N, the class histogram and samples are in the evidence file. Not a proof of absence."),
            "design_ref": getattr(s, "design_ref", "DESIGN.md section 4, %s" % pid)},
        "level_note": "; ".join(s.assumptions),
        "technique": s.technique,
    })
na = [{"property_id": p, "reason": props.NOT_APPLICABLE.get(p, "check not built yet in this revision (work in progress; see DESIGN.md section 4 for the planned check)")}
      for p in ALL if p not in props.SPECS]
m = {
    "version": 1,
    "setup_cmd": "./build.sh all && ./selfcheck.sh",
    "hooks": {
        "guard": "LIBFIBER_VERIF",
        "enable": "build.sh compiles /repo/src/*.c with clang -fsanitize=thread -femulated-tls -DLIBFIBER_VERIF -DFIBER_FAST_SWITCHING -DFIBER_STACK_MALLOC and links against /verif/engine/vsched.c instead of the TSan runtime",
        "baseline_off_cmd": "cmake -G Ninja -S /repo -B /repo/_build -DFIBER_RUN_TESTS_WITH_BUILD=OFF >/dev/null && cmake --build /repo/_build >/dev/null && ctest --test-dir /repo/_build -j8 --timeout 900",
        "source_commits": props.HOOK_COMMITS,
        "add_only": True,
    },
    "engines": [
        {"name": "ctx_runner", "path": "/verif/harness/ctx_runner.c", "serves_properties": ["C19"],
         "kind_free_text": "six gcc builds of /repo/src/fiber_context.c alone (split|mmap|malloc x assembly|ucontext) driven by Hypothesis-generated switch scripts with planted registers"},
        {"name": "vsched", "path": "/verif/engine/vsched.c", "serves_properties": [c["property_id"] for c in checks if c["engine"] == "vsched"],
         "kind_free_text": "own TSan-ABI runtime: kernel threads become virtual threads on one OS thread, every instrumented access is a scheduling point; random-walk / PCT / targeted-delay schedules, x86-TSO store buffers, shadow heap, virtual timer; Hypothesis generates the programs"},
    ],
    "checks": checks,
    "not_applicable": na,
    "notes": "Every check rebuilds the library objects from /repo's working tree (build.sh). VERIF_SEED selects the Hypothesis seed; VERIF_WORKERS the number of worker processes (default 14).",
}
json.dump(m, open(os.path.join(V, "MANIFEST.json"), "w"), indent=1)
print("MANIFEST.json: %d checks, %d not_applicable" % (len(checks), len(na)))
