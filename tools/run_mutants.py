#!/usr/bin/env python3
"""Apply each catalogue mutant to a scratch copy of the repository (a git worktree outside /repo and /verif), run the
quick check of its property against it, record caught / missed in mutants/results.json.
usage: run_mutants.py [id-substring ...]"""
import json, os, subprocess, sys, time
sys.path.insert(0, '/verif/mutants')
from catalogue import M
SCR = '/tmp/mut_repo'
BLD = '/verif/build_mut'
if not os.path.isdir(SCR):
    subprocess.check_call(['git', '-C', '/repo', 'worktree', 'add', '-q', '--detach', SCR, 'HEAD'])
subprocess.check_call(['git', '-C', SCR, 'checkout', '-q', '--', '.'])
sel = sys.argv[1:]
res_path = '/verif/mutants/results.json'
results = json.load(open(res_path)) if os.path.exists(res_path) else {}
env = dict(os.environ, VERIF_REPO=SCR, VERIF_BUILD=BLD, VERIF_BUDGET=os.environ.get('VERIF_BUDGET', '30'), VERIF_FUZZ_SECONDS='6', VERIF_OUT=os.environ.get('VERIF_OUT', '/tmp/p/mutout'))
for mid, prop, path, old, new in M:
    if sel and not any(s in mid for s in sel):
        continue
    src = open(os.path.join(SCR, path)).read()
    pairs = list(zip(old, new)) if isinstance(old, list) else [(old, new)]   # several sites of one file
    if any(src.count(o) < 1 for o, _ in pairs):
        results[mid] = {'property': prop, 'status': 'does_not_apply'}
        print(mid, 'DOES NOT APPLY'); continue
    for o, n in pairs:
        src = src.replace(o, n, 1)
    open(os.path.join(SCR, path), 'w').write(src)
    t0 = time.time()
    p = subprocess.run(['/verif/check', prop, 'quick'], env=env, stdout=subprocess.PIPE, stderr=subprocess.STDOUT, timeout=3000)
    out = p.stdout.decode(errors='replace')
    kinds = sorted(set(l.split('kind=')[1].split(' ')[0] for l in out.split('\n') if l.startswith('violation kind=')))
    build_fail = 'ERROR: build' in out
    results[mid] = {'property': prop, 'file': path, 'status': 'build_failed' if build_fail else ('caught' if p.returncode == 1 else 'missed'),
                    'kinds': kinds, 'wall_s': round(time.time() - t0, 1)}
    print(mid, results[mid]['status'], kinds, results[mid]['wall_s'], flush=True)
    subprocess.check_call(['git', '-C', SCR, 'checkout', '-q', '--', '.'])
    # replays found against a mutant do not belong to the regression tier
    subprocess.run('rm -f /verif/replays/%s/*.json' % prop, shell=True)
    json.dump(results, open(res_path, 'w'), indent=1, sort_keys=True)
