// shared between rt_core.c (uninstrumented: driver, ghost monitors) and the
// instrumented harness files.
#ifndef RT_H
#define RT_H
#include <stddef.h>
#include <stdint.h>

#include "../engine/vsched.h"

#define MAX_FIBERS 24
#define MAX_OPS 256
#define MAX_CFG 32

typedef struct op {
  char name[16];
  int a, b, c;
} op_t;

typedef struct rcase {
  char harness[32];
  int threads;
  int n_cfg;
  char cfg_key[MAX_CFG][24];
  long cfg_val[MAX_CFG];
  int n_fibers;
  int n_ops[MAX_FIBERS];
  op_t ops[MAX_FIBERS][MAX_OPS];
} rcase_t;

extern rcase_t g_case;
long cfg_get(const char* key, long dflt);
// cfg dirty k>0: the object is about to be initialised in memory that is not zero (a stack slot, a recycled heap chunk,
// an object that is destroyed and initialised again): fill it with a byte pattern first
void rt_dirty(void* p, unsigned long n);
void* rt_token(int idx);
#define RT_DIRTY(obj) rt_dirty(&(obj), sizeof(obj))
extern int rt_tolerate_known_reads;
void rt_known_read_site(int enter);

// every harness implements this interface (instrumented code)
typedef struct harness {
  const char* name;
  void (*setup)(void);               // on the main fiber, after fiber_manager_init
  int (*do_op)(int idx, op_t* op);   // execute one op on program fiber idx; return 0 if unknown
  int (*at_quiescence)(void);        // 1 = injected a stimulus (continue), 0 = nothing left to do
  void (*final_check)(void);         // called when everything is finished
  int (*expect_unfinished)(int idx); // optional: fiber idx is allowed to be unfinished at the end
  void (*entry)(void* arg);          // optional: thread-level harness (no fiber runtime); replaces rt_main
} harness_t;

extern const harness_t* const all_harnesses[];

// ---- ghost API (uninstrumented, atomic w.r.t. the explored interleavings) ----
#define GHOST __attribute__((no_sanitize("thread"), noinline))

void g_expect_spawn(int idx);  // the next fiber created is program fiber idx
void g_bind(int idx);        // program fiber idx starts on the current fiber
void g_done(int idx);        // program fiber idx returned from its body
void g_set_op(int idx, int opno);
int g_is_done(int idx);
int g_cur_idx(void);         // program fiber index of the fiber running on this vthread, -1 if none
void g_nb_enter(int idx);    // a call that must not suspend the fiber begins
void g_nb_exit(int idx);
void g_sleep_enter(int idx); // fiber enters a sleep call (virtual time advances at quiescence)
void g_sleep_exit(int idx);
int g_sleepers(void);
uint64_t g_switch_seq(void);
void g_yield_noswitch(int idx);
void g_yield_begin(int idx);
int g_fiber_switches(int idx);  // number of times program fiber idx was switched in
void g_expect_kernel_block(int on);
void* g_fiber_ptr(int idx);
int g_fiber_saved(int idx);      // program fiber idx has completed a switch-out and is not running
int g_fiber_destroyed(int idx);
uint64_t g_ticks(void);
int g_all_done(void);
int g_n_done(void);
void g_note_main_parked(void);
// switch-in log per kernel thread (C10)
typedef struct swlog {
  int n;
  int16_t who[8192];  // program fiber idx, -1 main, -2 maintenance, -3 other
} swlog_t;
const swlog_t* g_swlog(int vthread);
// global event log: type 0 = switch-in on 'thread', 1 = made runnable on 'thread', 2 = fiber_yield by 'who' on 'thread'
// returned without any switch
typedef struct gev {
  uint8_t type;
  int8_t thread;
  int16_t who;  // program fiber idx, -1 main, -2 maintenance, -3 other
} gev_t;
const gev_t* g_evlog(int* n);
int g_ready_count(void);  // fibers with a pending wake right now

// mark the execution non-trivial on behalf of sub-harness 'name' (only counts when it is the case's harness)
void rt_nontrivial(const char* name);
long g_steals(void);
long g_early_wakes(void);
// instrumented side entry
void rt_main(void* arg);
#endif
