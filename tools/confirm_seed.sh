#!/bin/bash
# Confirm a seeded change independently in its scratch worktree:
#   compiles, passes the pinned suite, demo fails with it and passes without it.
# usage: confirm_seed.sh C07   -> writes /tmp/seed/C07/confirm.json
ID=$1; ROOT=${2:-/tmp/seed}
WT=$ROOT/$ID
cd $WT || exit 2
git checkout -q -- src include
if ! git apply --check out/patch.diff 2>/dev/null; then echo "{\"id\":\"$ID\",\"error\":\"patch does not apply to its own worktree\"}" > confirm.json; exit 1; fi
git apply out/patch.diff
rm -rf _b
cfg() { cmake -G Ninja -S $WT -B $WT/_b -DCMAKE_BUILD_TYPE=RelWithDebInfo -DCMAKE_C_FLAGS=-Wno-error -DFIBER_RUN_TESTS_WITH_BUILD=OFF >/dev/null 2>&1; }
cfg; if ! cmake --build _b >/dev/null 2>&1; then echo "{\"id\":\"$ID\",\"error\":\"does not compile\"}" > confirm.json; git checkout -q -- src include; exit 1; fi
T1=$(ctest --test-dir _b -j4 --timeout 900 2>&1 | grep -E "tests passed" ); F1=$(ctest --test-dir _b -j4 --timeout 900 --rerun-failed 2>&1 | grep -E "tests passed|No tests")
( WT=$WT timeout 900 bash out/run.sh ) > with.log 2>&1; RC_WITH=$?
git checkout -q -- src include
rm -rf _b; cfg; cmake --build _b >/dev/null 2>&1
( WT=$WT timeout 900 bash out/run.sh ) > without.log 2>&1; RC_WITHOUT=$?
rm -rf _b
python3 - <<PY
import json
json.dump({"id":"$ID","ctest_with_change":"""$T1""".strip(),"ctest_rerun_failed":"""$F1""".strip(),"demo_rc_with_change":$RC_WITH,"demo_rc_without_change":$RC_WITHOUT,
  "with_tail":open("$WT/with.log",errors="replace").read()[-400:],"without_tail":open("$WT/without.log",errors="replace").read()[-300:]}, open("$WT/confirm.json","w"), indent=1)
PY
