#!/bin/bash
# Apply a seeded change to /repo, run the given check(s), undo it straight afterwards.
# What the run writes (evidence, replays) goes to a scratch directory (VERIF_OUT), never into /verif/evidence or /verif/replays:
# those describe the unchanged tree only.
# usage: try_seed.sh <seed dir with patch.diff> <tier> <property> [more properties]
SD=$1; TIER=$2; shift 2
cd /repo || exit 2
if [ -n "$(git status --porcelain --untracked-files=no)" ]; then echo "REPO NOT CLEAN"; exit 2; fi
if ! git apply --3way "$SD/patch.diff" >/dev/null 2>&1; then git checkout -q -- . ; git reset -q; echo "PATCH DOES NOT APPLY to current /repo"; exit 3; fi
git reset -q   # --3way stages; keep the change in the working tree only
if grep -rl '^<<<<<<<' src include >/dev/null 2>&1; then git checkout -q -- .; echo "PATCH CONFLICTS with current /repo"; exit 3; fi
cd /verif
for P in "$@"; do
  OUTD=/tmp/p/seedout_$$; rm -rf $OUTD; mkdir -p $OUTD
  OUT=$(VERIF_OUT=$OUTD VERIF_BUDGET=${VERIF_BUDGET:-40} timeout 1500 ./check $P $TIER 2>&1); RC=$?
  echo "$OUT" | grep -E "^violation kind|^C[0-9]+ $TIER|VIOLATION|ERROR|KNOWN" | head -6
  echo "RESULT seed=$(basename $SD) check=$P tier=$TIER rc=$RC"
  mkdir -p $SD/found_$P; for f in $OUTD/replays/$P/*.json; do [ -e "$f" ] && mv $f $SD/found_$P/; done
  rm -rf $OUTD
done
git -C /repo checkout -q -- .
# /verif/build now holds the seeded library: rebuild from the restored tree
/verif/build.sh rt >/dev/null 2>&1
