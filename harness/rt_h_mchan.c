// C11 multi channel (many senders, many receivers; both sides block)
#include <string.h>

#include "fiber_manager.h"
#include "fiber_multi_channel.h"
#include "rt.h"

extern void rt_work(int idx, int n);

static fiber_multi_channel_t* mch;
static int mch_cap;
static long m_sent_begun[MAX_FIBERS], m_sends_done, m_recvs_begun, m_recvs_done, m_sends_total;
static uint8_t m_seen[MAX_FIBERS][1024];
static long m_last_by_recv[MAX_FIBERS][MAX_FIBERS];
static int m_send_blocked, m_recv_blocked;

#define ENC(s, q) ((void*)(uintptr_t)((((uintptr_t)(s) + 1) << 20) | ((uintptr_t)(q) + 1)))

GHOST static long gm_send_begin(int s) {
  m_sends_total++;
  return m_sent_begun[s]++;
}
GHOST static void gm_send_done(void) {
  vs_rt_enter();
  m_sends_done++;
  if (m_sends_done - m_recvs_begun > mch_cap)
    vs_violation("capacity_exceeded", "multi channel: %ld sends completed, %ld receives begun, capacity %d", m_sends_done, m_recvs_begun, mch_cap);
  vs_rt_exit();
}
GHOST static void gm_recv_begin(void) { m_recvs_begun++; }
GHOST static void gm_recv(int idx, void* m) {
  vs_rt_enter();
  uintptr_t v = (uintptr_t)m;
  long s = (long)(v >> 20) - 1, q = (long)(v & 0xfffff) - 1;
  if (s < 0 || s >= g_case.n_fibers || q < 0 || q >= m_sent_begun[s] || q >= 1024)
    vs_violation("message_invented", "multi channel: fiber %d received %p which no sender sent", idx, m);
  if (m_seen[s][q]) vs_violation("message_dup", "multi channel: message %ld of sender %ld received twice", q, s);
  m_seen[s][q] = 1;
  if (q + 1 <= m_last_by_recv[idx][s])
    vs_violation("message_reordered", "multi channel: receiver %d got message %ld of sender %ld after its message %ld", idx, q, s, m_last_by_recv[idx][s] - 1);
  m_last_by_recv[idx][s] = q + 1;
  m_recvs_done++;
  vs_rt_exit();
}
GHOST static void gm_inc(int* c) { (*c)++; }

static void mchan_setup(void) {
  long lg = cfg_get("mchan_cap", 0);
  if (!lg) return;
  mch_cap = 1 << lg;
  mch = fiber_multi_channel_create((uint32_t)lg);
  vs_watch(mch, sizeof *mch);
}
static int mchan_do_op(int idx, op_t* op) {
  if (!strcmp(op->name, "msend")) {
    for (int i = 0; i < op->b; i++) {
      long q = gm_send_begin(idx);
      int before = g_fiber_switches(idx);
      fiber_multi_channel_send(mch, ENC(idx, q));
      if (g_fiber_switches(idx) != before) gm_inc(&m_send_blocked);
      gm_send_done();
      if (op->c) rt_work(idx, op->c);
    }
    return 1;
  }
  if (!strcmp(op->name, "mrecv")) {
    for (int i = 0; i < op->b; i++) {
      gm_recv_begin();
      int before = g_fiber_switches(idx);
      void* m = fiber_multi_channel_receive(mch);
      if (g_fiber_switches(idx) != before) gm_inc(&m_recv_blocked);
      gm_recv(idx, m);
      if (op->c) rt_work(idx, op->c);
    }
    return 1;
  }
  return 0;
}
GHOST static void mchan_final(void) {
  vs_rt_enter();
  if (mch) {
    if (g_all_done() && m_recvs_done != m_sends_total) vs_violation("message_lost", "multi channel: %ld sent, %ld received", m_sends_total, m_recvs_done);
    vs_label_add("mchan_messages", m_recvs_done);
    vs_label_add("mchan_send_blocked", m_send_blocked);
    vs_label_add("mchan_recv_blocked", m_recv_blocked);
    if (m_send_blocked + m_recv_blocked > 0) rt_nontrivial("mchan");
  }
  vs_rt_exit();
}
const harness_t h_mchan = {"mchan", mchan_setup, mchan_do_op, 0, mchan_final, 0};
