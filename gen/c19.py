"""C19: context switch.  Hypothesis generates switch scripts; each is executed by the six
build variants of ctx_runner (stack strategy x switching back end)."""
import concurrent.futures
import hashlib
import json
import os
import subprocess
import time

from hypothesis import HealthCheck, Phase, Verbosity, given, seed, settings
from hypothesis import strategies as st

import common

VARIANTS = ["split_asm", "split_ucontext", "mmap_asm", "mmap_ucontext", "malloc_asm", "malloc_ucontext"]
SIZES = [1024, 1025, 1536, 2047, 4041, 4095, 4096, 4097, 8192, 12345, 16384, 49097, 49120, 49151, 49152, 49153, 65536, 102400, 262144, 1048576, 1000003]
REG_POOL = [0, 1, 0xFFFFFFFFFFFFFFFF, 0x8000000000000000, 0x7FFFFFFFFFFFFFFF, 0xDEADBEEFCAFEF00D, 0x0123456789ABCDEF]

RULE = ("Hypothesis generates switch scripts: 2-8 contexts (index 0 = the driving pthread) with stack sizes from {1 KiB .. 1 MiB, odd sizes, non-multiples of 16 and of the page size}, "
        "1-40 switches whose targets are any other context (A->B->A, chains, switching into fresh contexts, back to the thread), about one switch in seven made with 1-40 further 4 KiB "
        "pattern-filled frames live on the stack (clamped to the stack size for fixed stacks; a split stack is then suspended on a later segment than it was created with), context objects placed in zeroed or in pattern-filled memory, start arguments that are small integers or values with bit 31 / bit 63 / high halves set, six generated 64-bit values per switch planted into "
        "rbx, rbp, r12-r15 by an assembly shim, and optionally a second pthread that resumes the contexts the first one suspended; every script runs on all six builds of "
        "fiber_context.c (split|mmap|malloc stacks x assembly|ucontext switching). Oracle: registers, rsp and a 16-word stack frame on resumption equal those at suspension; a fresh "
        "context gets its argument in rdi, rsp = 8 (mod 16) at entry and inside its own stack; stacks pairwise disjoint; destroy releases each stack "
        "exactly once (free/munmap/__splitstack_releasecontext wrapped). An execution (script x variant) is non-trivial when it resumes at least one suspended context and starts at "
        "least one fresh one; distinct = distinct (script, variant).")
ASSUME = ["x86-64 only (the i386 and Solaris back ends cannot be built in this sandbox)", "gcc 12, -O1; fiber_context.c compiled from the current working tree",
          "the generated 64-bit register values and the 16-word frame stand for 'stack contents'; signal handlers and FPU state are not part of the property"]
TECH = "property-based testing: Hypothesis-generated switch scripts with planted callee-saved registers, differential over six build variants, release counting via --wrap"


@st.composite
def script(draw, tier):
    nctx = draw(st.integers(2, 8))
    sizes = [draw(st.sampled_from(SIZES)) for _ in range(nctx - 1)]
    n = draw(st.integers(1, 40 if tier == "quick" else 120))
    cur = 0
    steps = []
    for _ in range(n):
        tgt = draw(st.sampled_from([i for i in range(nctx) if i != cur]))
        regs = [draw(st.one_of(st.sampled_from(REG_POOL), st.integers(0, 2**64 - 1))) for _ in range(6)]
        depth = draw(st.sampled_from([1, 2, 5, 6, 8, 16, 40])) if draw(st.integers(0, 6)) == 0 else 0
        steps.append((tgt, regs, depth))
        cur = tgt
    phase2 = draw(st.one_of(st.none(), st.integers(1, n))) if n >= 2 else None
    dirty = draw(st.sampled_from([0, 0, 0, 0xA5, 0xFF, 0x01]))
    pbase = draw(st.sampled_from([0, 0, 0x80000000, 0xfffffff0, 0x7e00c0000000, 0x8000000000000000, 0xffffffff00000000]))
    return {"nctx": nctx, "sizes": sizes, "steps": steps, "phase2": phase2, "dirty": dirty, "parambase": pbase}


def render(sc):
    lines = ["nctx %d" % sc["nctx"]]
    for i, s in enumerate(sc["sizes"]):
        lines.append("size %d %d" % (i + 1, s))
    if sc["phase2"] is not None:
        lines.append("phase2 %d" % sc["phase2"])
    if sc.get("dirty"):
        lines.append("dirty %d" % sc["dirty"])
    if sc.get("parambase"):
        lines.append("parambase %x" % sc["parambase"])
    for i, (tgt, regs, depth) in enumerate(sc["steps"]):
        lines.append("step %d %s" % (tgt, " ".join("%x" % r for r in regs)))
        if depth:
            lines.append("deep %d %d" % (i, depth))
    return "\n".join(lines) + "\n"


def run_variant(variant, text, workdir, tag=""):
    os.makedirs(workdir, exist_ok=True)
    path = os.path.join(workdir, "script_%s%s.txt" % (variant, tag))
    with open(path, "w") as f:
        f.write(text)
    try:
        p = subprocess.run([os.path.join(common.BUILD, "ctx_" + variant), path], stdout=subprocess.PIPE, stderr=subprocess.PIPE, timeout=20)
    except subprocess.TimeoutExpired:
        return {"status": "timeout"}
    out = p.stdout.decode(errors="replace")
    if p.returncode == 0 and out.startswith("OK"):
        kv = dict(x.split("=") for x in out.split()[1:])
        return {"status": "ok", "resumes": int(kv["resumes"]), "fresh": int(kv["fresh"]), "switches": int(kv["switches"]), "deep": int(kv.get("deep", 0))}
    if "VIOLATION" in out:
        line = [l for l in out.split("\n") if l.startswith("VIOLATION")][0]
        kind = line.split("kind=")[1].split(" ")[0]
        detail = line.split("detail=", 1)[1]
        return {"status": "violation", "kind": kind, "detail": detail}
    if p.returncode < 0:
        return {"status": "violation", "kind": "crash:signal%d" % (-p.returncode), "detail": "runner killed by signal %d" % (-p.returncode)}
    return {"status": "error", "detail": "rc=%d out=%r err=%r" % (p.returncode, out[-200:], p.stderr[-200:])}


class Found(Exception):
    pass


def custom(prop, tier, seed_value, write_evidence, save_replay, spec):
    t0 = time.time()
    workdir = os.path.join(common.BUILD, "tmp", "C19")
    n_examples = 1500 if tier == "quick" else 20000
    budget = float(os.environ.get("VERIF_BUDGET", "50" if tier == "quick" else "700"))
    stats = {"evaluations": 0, "nontrivial": set(), "scripts": 0, "by_variant": {v: 0 for v in VARIANTS}, "classes": {}, "samples": [], "timeouts": 0, "skipped": 0}
    state = {"fail": None}
    pool = concurrent.futures.ThreadPoolExecutor(max_workers=6)

    def body(sc):
        if time.time() - t0 > budget and state["fail"] is None:
            stats["skipped"] += 1
            return
        text = render(sc)
        h = hashlib.sha1(text.encode()).hexdigest()[:12]
        stats["scripts"] += 1
        futs = {v: pool.submit(run_variant, v, text, workdir) for v in VARIANTS}
        cls = "two_pthreads" if sc["phase2"] is not None else "one_pthread"
        stats["classes"][cls] = stats["classes"].get(cls, 0) + 1
        if sc.get("dirty"):
            stats["classes"]["context_objects_in_dirty_memory"] = stats["classes"].get("context_objects_in_dirty_memory", 0) + 1
        if any(s < 4096 for s in sc["sizes"]):
            stats["classes"]["tiny_stack"] = stats["classes"].get("tiny_stack", 0) + 1
        for v, fu in futs.items():
            r = fu.result()
            if r.get("deep"):
                stats["classes"]["deep_stack_switch:" + v.split("_")[0]] = stats["classes"].get("deep_stack_switch:" + v.split("_")[0], 0) + 1
            stats["evaluations"] += 1
            stats["by_variant"][v] += 1
            if r["status"] == "ok":
                if r["resumes"] >= 1 and r["fresh"] >= 1:
                    stats["nontrivial"].add((h, v))
                    if len(stats["samples"]) < 3:
                        stats["samples"].append({"variant": v, "script": text.strip().split("\n")[:12], "switches": r["switches"], "resumes": r["resumes"], "fresh": r["fresh"]})
            elif r["status"] == "timeout":
                stats["timeouts"] += 1
            elif r["status"] == "error":
                raise RuntimeError("ctx runner error: %s" % r["detail"])
            else:
                state["fail"] = {"script": sc, "text": text, "variant": v, "violation": r}
                raise Found(r["kind"])

    def test():
        # chunks of 100 scripts (each a seeded Hypothesis run of its own) until the time budget or the example count is reached
        done = k = 0
        while done < n_examples and time.time() - t0 <= budget:
            n = min(100, n_examples - done)
            settings(max_examples=n, database=None, deadline=None, derandomize=False, report_multiple_bugs=False, suppress_health_check=list(HealthCheck),
                     phases=[Phase.generate, Phase.shrink], verbosity=Verbosity.quiet)(seed(seed_value + k * 7919)(given(script(tier))(body)))()
            done += n
            k += 1
    violations = []
    # regression tier
    import glob
    for path in sorted(glob.glob(os.path.join(common.OUT, "replays", prop, "*.json"))):
        ok, _ = replay(json.load(open(path)), quiet=True)
        if ok:
            violations.append(path)
    try:
        test()
    except Found:
        fl = state["fail"]
        d = os.path.join(common.OUT, "replays", prop)
        os.makedirs(d, exist_ok=True)
        h = hashlib.sha1((fl["text"] + fl["variant"]).encode()).hexdigest()[:12]
        path = os.path.join(d, h + ".json")
        rp = {"kind": "custom", "module": "c19", "property": prop, "variant": fl["variant"], "script_text": fl["text"], "violation": fl["violation"]}
        with open(path, "w") as f:
            json.dump(rp, f, indent=1)
        n_ok = sum(1 for _ in range(3) if replay(rp, quiet=True)[0])
        print("violation kind=%s variant=%s detail=%s (replayed %d/3)" % (fl["violation"]["kind"], fl["variant"], fl["violation"]["detail"], n_ok))
        if n_ok == 3:
            violations.append(path)
    wall = time.time() - t0
    agg = {"executions": stats["evaluations"], "distinct_nontrivial": len(stats["nontrivial"]), "samples": stats["samples"], "programs": stats["scripts"], "distinct_programs": stats["scripts"],
           "nontrivial": len(stats["nontrivial"]), "inconclusive": stats["timeouts"], "labels": {}, "events": stats["classes"], "strategies": stats["by_variant"], "points": 0, "known_hits": {}}
    write_evidence(prop, tier, seed_value, spec, agg, wall, len(violations), extra={"examples_skipped_after_time_budget": stats["skipped"], "variants": VARIANTS})
    print("%s %s: %d scripts x 6 variants = %d executions, %d distinct non-trivial, %.1fs" % (prop, tier, stats["scripts"], stats["evaluations"], len(stats["nontrivial"]), wall))
    for v in violations:
        print("VIOLATION property=%s replay=%s" % (prop, v))
    return 1 if violations else 0


def replay(rp, quiet=False):
    r = run_variant(rp["variant"], rp["script_text"], os.path.join(common.BUILD, "tmp", "C19"), tag="_replay")
    ok = r["status"] == "violation" and r.get("kind") == rp["violation"].get("kind")
    if not quiet:
        print("replay (%s): expected %s, got %s %s" % (rp["variant"], rp["violation"].get("kind"), r["status"], r.get("kind", "")))
        if r.get("detail"):
            print("  detail: %s" % r["detail"])
    return ok, r
