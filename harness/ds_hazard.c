// C14 hazard pointers, thread level.
#include <stdlib.h>
#include <string.h>

#include "hazard_pointer.h"
#include "rt.h"

// every piece of per-execution state lives in one section so that the in-process (libFuzzer) front end can reset it
#define DSVAR __attribute__((section("ds_state")))

#define HCELLS 4
#define HMAXN 4096
typedef struct hnode {
  hazard_node_t hazard;  // must be first
  long id;
  volatile long payload;
  int depth;
} hnode_t;

static _Atomic(hazard_pointer_thread_record_t*) hp_head;
static DSVAR hazard_pointer_thread_record_t* hp_rec[MAX_FIBERS + 2];
static _Atomic(hnode_t*) cell[HCELLS];
static DSVAR int hp_k;
static DSVAR hnode_t* held[MAX_FIBERS + 2][8];  // validated pointer per slot (harness view)
// ghost
static DSVAR uint64_t hclock;
static DSVAR uint64_t n_retire_t[HMAXN], n_reclaim_t[HMAXN];
static DSVAR int n_owner[HMAXN];
static DSVAR uint64_t prot_t[MAX_FIBERS + 2][8];
static DSVAR long prot_id[MAX_FIBERS + 2][8];
static DSVAR long next_id = 1;
static DSVAR long h_validated, h_protected_at_scan, h_reclaimed, h_retired, h_derefs, h_late_reg;

GHOST static long gh_new_id(void) {
  vs_rt_enter();
  long id = next_id++;
  if (id >= HMAXN) vs_violation("engine_limit", "too many hazard nodes");
  vs_rt_exit();
  return id;
}
GHOST static void gh_validated(int slot_thread, int s, long id) {
  prot_id[slot_thread][s] = id;
  prot_t[slot_thread][s] = ++hclock;
  h_validated++;
}
GHOST static void gh_released(int slot_thread, int s) { prot_id[slot_thread][s] = 0; }
GHOST static void gh_retire(int t, long id) {
  n_retire_t[id] = ++hclock;
  n_owner[id] = t;
  h_retired++;
}
GHOST static void gh_reclaim(long id) {
  vs_rt_enter();
  if (id <= 0 || id >= next_id) vs_violation("reclaimed_while_protected", "gc callback for an unknown node");
  if (!n_retire_t[id]) vs_violation("reclaimed_while_protected", "node %ld reclaimed although it was never retired", id);
  if (n_reclaim_t[id]) vs_violation("reclaim_count", "node %ld handed to the reclamation callback twice", id);
  for (int t = 0; t < MAX_FIBERS + 2; t++)
    for (int s = 0; s < 8; s++)
      if (prot_id[t][s] == id && prot_t[t][s] < n_retire_t[id]) {
        h_protected_at_scan++;
        vs_violation("reclaimed_while_protected",
                     "node %ld was handed to its reclamation callback while thread %d holds a hazard pointer to it (slot %d) that was published and validated before the node was retired",
                     id, t, s);
      }
  n_reclaim_t[id] = ++hclock;
  h_reclaimed++;
  vs_rt_exit();
}
GHOST static void gh_deref_check(int t, int s, long id) {
  vs_rt_enter();
  h_derefs++;
  if (n_reclaim_t[id]) vs_violation("use_after_reclaim", "thread %d dereferences node %ld through validated hazard slot %d after it was reclaimed", t, id, s);
  vs_rt_exit();
}
GHOST static void gh_threshold_check(int t, hazard_pointer_thread_record_t* r) {
  vs_rt_enter();
  if (r->retired_count > r->retire_threshold)
    vs_violation("garbage_unbounded", "thread %d: %zu retired nodes pending, threshold %zu", t, r->retired_count, (size_t)r->retire_threshold);
  vs_rt_exit();
}

void hz_reset(void) { next_id = 1; }

static hnode_t* hp_new(int pad);
static DSVAR int hp_nested;
static DSVAR long h_nested_retires;
static void hp_gc(void* gc_data, hazard_node_t* node) {
  hnode_t* n = (hnode_t*)node;
  gh_reclaim(n->id);
  // cfg nested_retire: parent-owns-child structures - the reclamation callback of every fourth node retires a further node
  // through the same record (gc_data = the record that retired the parent, i.e. the one that is scanning right now)
  if (hp_nested && gc_data && n->id % 4 == 0 && n->depth == 0) {
    hnode_t* child = hp_new(0);
    child->depth = 1;
    child->hazard.gc_data = gc_data;
    int owner = n_owner[n->id];
    gh_retire(owner, child->id);
    h_nested_retires++;
    hazard_pointer_free((hazard_pointer_thread_record_t*)gc_data, &child->hazard);
  }
  if ((char*)n - (char*)0 && vs_heap_contains(n)) free(n);
}
static hnode_t* hp_new(int pad) {
  if (pad & 127) {
    void* junk = malloc((size_t)(pad & 127) * 16);  // shapes the address pattern seen by the sorted snapshot
    (void)junk;
  }
  // pad >= 128: take the node from the far arena region (more than 2^31 bytes away), as with brk heap vs mmap arenas
  hnode_t* n = (pad & 128) ? vs_alloc_far(sizeof *n) : malloc(sizeof *n);
  n->id = gh_new_id();
  n->payload = n->id * 7;
  n->hazard.gc_data = 0;
  n->hazard.gc_function = hp_gc;
  n->depth = 0;
  return n;
}
static hazard_pointer_thread_record_t* hp_get(int me) {
  if (!hp_rec[me]) hp_rec[me] = hazard_pointer_thread_record_create_and_push(&hp_head, (size_t)hp_k);
  return hp_rec[me];
}

static void hp_setup(void) {
  hp_k = (int)cfg_get("slots", 2);
  hp_nested = (int)cfg_get("nested_retire", 0);
  hp_head = NULL;
  for (int c = 0; c < HCELLS; c++) cell[c] = hp_new(0);
  // records of threads without a "reg" op exist from the start
  for (int i = 0; i < g_case.n_fibers; i++) {
    int late = 0;
    for (int j = 0; j < g_case.n_ops[i]; j++)
      if (!strcmp(g_case.ops[i][j].name, "reg")) late = 1;
    if (!late) hp_get(i + 1);
  }
}

static int hp_do_op(int t, op_t* op) {
  int me = t + 1;
  if (!strcmp(op->name, "reg")) {
    hp_get(me);
    h_late_reg++;
    return 1;
  }
  hazard_pointer_thread_record_t* r = hp_get(me);
  if (!strcmp(op->name, "protect")) {
    int c = op->a % HCELLS, s = op->b % hp_k;
    if (held[me][s]) {
      gh_released(me, s);
      held[me][s] = 0;
      hazard_pointer_done_using(r, (size_t)s);
    }
    hnode_t* p = atomic_load_explicit(&cell[c], memory_order_acquire);
    hazard_pointer_using(r, &p->hazard, (size_t)s);
    if (p == atomic_load_explicit(&cell[c], memory_order_acquire)) {
      gh_validated(me, s, p->id);
      held[me][s] = p;
    } else {
      hazard_pointer_done_using(r, (size_t)s);
    }
    return 1;
  }
  if (!strcmp(op->name, "release")) {
    int s = op->a % hp_k;
    if (held[me][s]) {
      gh_released(me, s);
      held[me][s] = 0;
    }
    hazard_pointer_done_using(r, (size_t)s);
    return 1;
  }
  if (!strcmp(op->name, "deref")) {
    int s = op->a % hp_k;
    hnode_t* p = held[me][s];
    if (p) {
      long id = p->id;          // instrumented reads of the node: shadow heap sees a reclaimed node
      long pay = p->payload;
      gh_deref_check(me, s, id);
      if (pay != id * 7) vs_violation("use_after_reclaim", "node %ld payload corrupted", id);
    }
    return 1;
  }
  if (!strcmp(op->name, "replace")) {
    int c = op->a % HCELLS;
    hnode_t* fresh = hp_new(op->b);
    hnode_t* old = atomic_exchange(&cell[c], fresh);
    gh_retire(me, old->id);
    old->hazard.gc_data = r;
    hazard_pointer_free(r, &old->hazard);
    gh_threshold_check(me, r);
    return 1;
  }
  if (!strcmp(op->name, "scan")) {
    hazard_pointer_scan(r);
    return 1;
  }
  return 0;
}

static void* hp_thread(void* p) {
  int t = (int)(intptr_t)p;
  for (int k = 0; k < g_case.n_ops[t]; k++) {
    op_t* op = &g_case.ops[t][k];
    if (!strcmp(op->name, "work") || !strcmp(op->name, "nop")) continue;
    if (!hp_do_op(t, op)) vs_violation("engine_limit", "unknown hazard op %s", op->name);
  }
  // closing phase: drop every protection this thread holds
  int me = t + 1;
  hazard_pointer_thread_record_t* r = hp_get(me);
  // (only the slots it really holds: a slot the thread never touched keeps whatever the record was created with)
  for (int s = 0; s < hp_k; s++) {
    if (held[me][s]) {
      gh_released(me, s);
      held[me][s] = 0;
      hazard_pointer_done_using(r, (size_t)s);
    }
  }
  return 0;
}

GHOST static void hp_final_ghost(int nrec) {
  vs_rt_enter();
  // bounded garbage: with nothing protected any more, 2*N*K further retirements by the owner must have
  // reclaimed every node it retired before them (checked by the caller's closing retirements)
  for (long id = 1; id < next_id; id++)
    if (n_retire_t[id] && !n_reclaim_t[id] && n_owner[id] >= 0) {
      // still pending: allowed only if it is among the last < threshold retirements of its owner
    }
  vs_label_add("hp_validated", (uint64_t)h_validated);
  vs_label_add("hp_retired", (uint64_t)h_retired);
  vs_label_add("hp_reclaimed", (uint64_t)h_reclaimed);
  vs_label_add("hp_derefs", (uint64_t)h_derefs);
  vs_label_add("hp_late_registration", (uint64_t)h_late_reg);
  vs_label_add("hp_retired_inside_callback", (uint64_t)h_nested_retires);
  (void)nrec;
  if (h_validated > 0 && h_reclaimed > 0) rt_nontrivial("hazard");
  vs_rt_exit();
}
GHOST static void hp_check_all_reclaimed(int owner, long upto_clock) {
  vs_rt_enter();
  for (long id = 1; id < next_id; id++)
    if (n_retire_t[id] && n_retire_t[id] <= (uint64_t)upto_clock && n_owner[id] == owner && !n_reclaim_t[id])
      vs_violation("garbage_unbounded", "node %ld retired by thread %d is unprotected but was not reclaimed after 2*N*K further retirements by that thread", id, owner);
  vs_rt_exit();
}
GHOST static long gh_clock(void) { return (long)hclock; }

static void hp_entry(void* a) {
  (void)a;
  hp_setup();
  int tids[MAX_FIBERS];
  for (int i = 0; i < g_case.n_fibers; i++) tids[i] = vs_thread_create(hp_thread, (void*)(intptr_t)i);
  for (int i = 0; i < g_case.n_fibers; i++) vs_thread_join(tids[i]);
  // closing phase (single-threaded now): every record retires 2*N*K dummy nodes; everything retired before
  // that by the same record must be gone afterwards
  int nrec = 0;
  for (int i = 1; i < MAX_FIBERS + 2; i++) nrec += hp_rec[i] != 0;
  for (int me = 1; me < MAX_FIBERS + 2; me++) {
    hazard_pointer_thread_record_t* r = hp_rec[me];
    if (!r) continue;
    long mark = gh_clock();
    for (int k = 0; k < 2 * nrec * hp_k; k++) {
      hnode_t* d = hp_new(0);
      d->depth = 1;   // the closing retirements have no children
      gh_retire(me, d->id);
      hazard_pointer_free(r, &d->hazard);
      gh_threshold_check(me, r);
    }
    hp_check_all_reclaimed(me, mark);
  }
  hp_final_ghost(nrec);
}
const harness_t h_hazard = {"hazard", 0, 0, 0, 0, 0, hp_entry};
