// vsched.c - virtual threads, TSan-ABI runtime, emulated TLS, shadow heap,
// x86-TSO store buffers, virtual timer/epoll, decision log.
// Compiled WITHOUT instrumentation and with -fno-builtin.
#ifndef _GNU_SOURCE
#define _GNU_SOURCE
#endif
#include "vsched.h"

#include <dlfcn.h>
#include <errno.h>
#include <pthread.h>
#include <signal.h>
#include <stdarg.h>
#include <stdio.h>
#include <stdlib.h>
#include <string.h>
#include <sys/epoll.h>
#include <sys/eventfd.h>
#include <fcntl.h>
#include <poll.h>
#include <sys/mman.h>
#include <sys/socket.h>
#include <sys/stat.h>
#include <sys/uio.h>
#include <sys/syscall.h>
#include <sys/timerfd.h>
#include <time.h>
#include <ucontext.h>
#include <unistd.h>

// ---------------------------------------------------------------------------
// forward decls of glibc's real allocator
extern void* __libc_malloc(size_t);
extern void __libc_free(void*);
extern void* __libc_calloc(size_t, size_t);
extern void* __libc_realloc(void*, size_t);
extern void* __libc_memalign(size_t, size_t);

// ---------------------------------------------------------------------------
#define SB_MAX 48
#define VS_MAX_TLS 64
#define VS_STACK_SIZE (1u << 20)

typedef struct sb_entry {
  uintptr_t addr;
  uint8_t size;
  uint8_t val[16];
  uint8_t prev[16];
  uint32_t age;
} sb_entry_t;

typedef struct vthread {
  int id;
  int state;  // 0 unused, 1 runnable, 2 blocked in join, 3 done
  void* sp;
  char* stack;
  size_t stack_size;
  void* (*fn)(void*);
  void* arg;
  void* ret;
  int join_target;
  int saved_errno;
  void* tls[VS_MAX_TLS];
  int64_t prio;
  uint64_t run_len;
  int idle_rounds;
  uint64_t last_G;
  int parked_idle;    // suspended inside the idle epoll_wait
  int confirm_polls;  // idle polls done as the confirmation runner
  int confirmed;
  int in_op;
  int tol_freed_read8;
  // TSO
  sb_entry_t sb[SB_MAX];
  int sb_n;
  uintptr_t pend_addr;
  uint8_t pend_size;
  uint8_t pend_old[16];
} vthread_t;

#define MAX_RANGES 8
typedef struct range {
  uintptr_t lo, hi;
} range_t;

static struct {
  int active;
  int in_rt;
  vs_config_t cfg;
  vthread_t th[VS_MAX_THREADS];
  int nth;
  vthread_t* cur;
  uint64_t points;
  uint64_t next_event;
  uint64_t rng;
  int fair;  // fair tail engaged
  int64_t low_prio;
  // PCT
  uint64_t change[16];
  int n_change, change_idx;
  uint64_t watch_hits;
  uint64_t watch_hits_t[VS_MAX_THREADS];
  uint64_t points_t[VS_MAX_THREADS];
  uint64_t spins_while_stalled;  // cpu_relax() calls made by the running threads while some thread was held
  int stalled_tid;  // number of threads currently held back by the stall strategy (name kept: >= 0 means "some")
  uint64_t stall_since_t[VS_MAX_THREADS];
  range_t watch[MAX_RANGES];
  int n_watch;
  range_t stacks[512];
  int n_stacks;
  // replay
  int replay_idx;
  int replay_diverged;
  // progress
  uint64_t G;
  uint64_t marker, marker_at_half;
  int half_seen;
  int confirm_active;
  uint64_t confirm_G;
  vs_quiescence_fn qcb;
  int timer_fd;
  uint64_t ticks_delivered, ticks_read;
  void* exit_sp;
  void* last_pc;
  struct { uintptr_t lo, hi; int owner; const char* what; } owned[32];
  int n_owned;
  uintptr_t owned_min, owned_max;
  int exit_status;
  int inproc;
  uint64_t tso_max_age;
} vs;

// the OS thread that executes the virtual threads (native TLS: the engine itself is not built with emulated TLS).
// Any other OS thread of the process (e.g. libFuzzer's RSS watchdog) must pass straight through every interposer.
static __thread int vs_owner;
#define ACTIVE (vs.active && vs_owner)
static vs_result_t vs_static_res;
vs_result_t* vs_res = &vs_static_res;
int vs_real_sleep_calls = 0;
void (*vs_on_blocking_poll)(void) = 0;
void (*vs_on_real_sleep)(const char*) = 0;
const char* (*vs_describe_state)(void) = 0;
int (*vs_idle_context)(void) = 0;

static vthread_t* const th0 = &vs.th[0];
__attribute__((constructor(101))) static void vs_ctor(void) {
  if (!vs.cur) {
    vs.cur = th0;
    th0->state = 1;
    vs.nth = 1;
  }
}
static inline vthread_t* curth(void) { return vs.cur ? vs.cur : th0; }

// ---------------------------------------------------------------------------
// small helpers that never call into interposed libc
static inline void bcopy_(void* d, const void* s, size_t n) {
  unsigned char* dd = d;
  const unsigned char* ss = s;
  if (dd == ss) return;
  if (dd < ss || dd >= ss + n) {
    __asm__ volatile("rep movsb" : "+D"(dd), "+S"(ss), "+c"(n) : : "memory");
  } else {
    while (n--) dd[n] = ss[n];
  }
}
static inline void bset_(void* d, int c, size_t n) {
  unsigned char* dd = d;
  __asm__ volatile("rep stosb" : "+D"(dd), "+c"(n) : "a"(c) : "memory");
}
static inline int bcmp_(const void* a, const void* b, size_t n) {
  const unsigned char *x = a, *y = b;
  for (size_t i = 0; i < n; i++)
    if (x[i] != y[i]) return 1;
  return 0;
}

static inline uint64_t rnd(void) {
  uint64_t x = vs.rng;
  x ^= x >> 12;
  x ^= x << 25;
  x ^= x >> 27;
  vs.rng = x;
  return x * 2685821657736338717ull;
}
uint64_t vs_rand(void) { return rnd(); }
static uint64_t rng_tso;
static inline uint64_t rnd_tso(void) {
  uint64_t x = rng_tso;
  x ^= x >> 12;
  x ^= x << 25;
  x ^= x >> 27;
  rng_tso = x;
  return x * 2685821657736338717ull;
}

// ---------------------------------------------------------------------------
// shadow heap: bump allocator that never reuses memory within one execution
#define ARENA_SIZE (3ull << 30)
#define REDZONE 32
static char* arena;
static size_t arena_used;
static uint8_t* shadow;  // 1 byte per 8 bytes: 0 unallocated/redzone, 1 live, 2 freed
static size_t arena_high;  // high-water mark (for reset)
#define HDR_MAGIC 0x5653484541504d47ull

#define FAR_OFFSET 0x90000000ull
static size_t far_used;
static int shadow_freed_ok;
static void arena_init(void) {
  arena = mmap(0, ARENA_SIZE, PROT_READ | PROT_WRITE, MAP_PRIVATE | MAP_ANONYMOUS | MAP_NORESERVE, -1, 0);
  shadow = mmap(0, ARENA_SIZE / 8, PROT_READ | PROT_WRITE, MAP_PRIVATE | MAP_ANONYMOUS | MAP_NORESERVE, -1, 0);
  if (arena == MAP_FAILED || shadow == MAP_FAILED) {
    const char m[] = "vsched: arena mmap failed\n";
    (void)!syscall(SYS_write, 2, m, sizeof m - 1);
    _exit(97);
  }
  arena_used = 64;
}

static unsigned n_recent;
static void arena_reset(void) {
  n_recent = 0;
  if (!arena) {
    arena_init();
    return;
  }
  if (arena_high) {
    size_t len = (arena_high + 4095) & ~4095ul;
    madvise(arena, len, MADV_DONTNEED);
    madvise(shadow, (len / 8 + 4095) & ~4095ul, MADV_DONTNEED);
  }
  if (far_used) {
    size_t len = (far_used + 4095) & ~4095ul;
    madvise(arena + FAR_OFFSET, len, MADV_DONTNEED);
    madvise(shadow + (FAR_OFFSET >> 3), (len / 8 + 4095) & ~4095ul, MADV_DONTNEED);
    far_used = 0;
  }
  shadow_freed_ok = 0;
  arena_used = 64;
  arena_high = 0;
}

static inline int in_arena(const void* p) {
  return arena && (const char*)p >= arena && (const char*)p < arena + ARENA_SIZE;
}
int vs_heap_contains(const void* p) { return in_arena(p); }
int vs_heap_is_live(const void* p) {
  if (!in_arena(p)) return 1;
  return shadow[((const char*)p - arena) >> 3] == 1;
}

static void* arena_alloc(size_t n, size_t align) {
  if (!arena) arena_init();
  if (align < 16) align = 16;
  size_t start = arena_used + REDZONE;
  start = (start + align - 1) & ~(align - 1);
  size_t rn = (n + 7) & ~7ul;
  if (rn == 0) rn = 8;
  size_t end = start + rn + REDZONE;
  end = (end + 15) & ~15ul;
  if (end > ARENA_SIZE) {
    vs_inconclusive("arena exhausted");
  }
  arena_used = end;
  if (end > arena_high) arena_high = end;
  uint64_t* hdr = (uint64_t*)(arena + start - 16);
  hdr[0] = HDR_MAGIC;
  hdr[1] = n;
  bset_(shadow + (start >> 3), 1, rn >> 3);
  return arena + start;
}

static size_t arena_block_size(void* p) {
  uint64_t* hdr = (uint64_t*)((char*)p - 16);
  if (hdr[0] != HDR_MAGIC) return (size_t)-1;
  return hdr[1];
}

static inline int use_arena(void) { return ACTIVE && !vs.in_rt; }

// a second bump region 0x90000000 bytes above the first: objects whose addresses differ by more than 2^31
void* vs_alloc_far(size_t n) {
  if (!arena) arena_init();
  size_t start = (FAR_OFFSET + far_used + REDZONE + 15) & ~15ull;
  size_t rn = (n + 7) & ~7ul;
  if (rn == 0) rn = 8;
  size_t end = (start + rn + REDZONE + 15) & ~15ull;
  if (end > ARENA_SIZE) vs_inconclusive("far arena exhausted");
  far_used = end - FAR_OFFSET;
  uint64_t* hdr = (uint64_t*)(arena + start - 16);
  hdr[0] = HDR_MAGIC;
  hdr[1] = n;
  bset_(shadow + (start >> 3), 1, rn >> 3);
  return arena + start;
}
void vs_heap_allow_freed(int on) { shadow_freed_ok = on; }
void vs_tolerate_freed_read8(int on) {
  if (ACTIVE && vs.cur) vs.cur->tol_freed_read8 = on;
}

static void tso_drain_self(void);
static void* real_sym(const char* name);
static inline void sched_point(uintptr_t a, int size, int is_write);

static int arena_perturb = -1;
static void* recent_blocks[8];
static inline void* perturbed(void* p, size_t n) {
  // like MALLOC_PERTURB_: memory from malloc is not zero (the arena never reuses, so it would otherwise always be).
  // What it holds instead depends on the schedule seed: a byte pattern, or - what a recycled chunk typically holds -
  // the addresses of recently allocated blocks
  if (arena_perturb < 0) arena_perturb = getenv("VS_NO_PERTURB") ? 0 : 1;
  if (arena_perturb && p) {
    unsigned mode = (unsigned)((vs.cfg.seed >> 52) & 7);
    if (mode < 4 || !n_recent) bset_(p, 0xA5, n);
    else if (mode == 4) bset_(p, 0xFF, n);
    else if (mode == 5) bset_(p, 0x01, n);
    else {
      bset_(p, 0xA5, n);
      void** w = (void**)p;
      unsigned k = n_recent < 8 ? n_recent : 8;
      for (size_t i = 0; i + 8 <= n; i += 8) w[i / 8] = recent_blocks[(i / 8) % k];
    }
  }
  if (p) recent_blocks[n_recent++ & 7] = p;
  return p;
}
void* malloc(size_t n) {
  if (!use_arena()) return __libc_malloc(n);
  tso_drain_self();
  return perturbed(arena_alloc(n, 16), n);
}
void* calloc(size_t a, size_t b) {
  if (!use_arena()) return __libc_calloc(a, b);
  tso_drain_self();
  size_t n = a * b;
  void* p = arena_alloc(n, 16);
  // arena memory is fresh (never reused) and therefore already zero
  return p;
}
void free(void* p) {
  if (!p) return;
  if (!in_arena(p)) {
    __libc_free(p);
    return;
  }
  if (ACTIVE) tso_drain_self();
  size_t off = (char*)p - arena;
  size_t n = arena_block_size(p);
  if (n == (size_t)-1 || shadow[off >> 3] != 1) {
    if (ACTIVE) vs_violation(shadow[off >> 3] == 2 ? "double_free" : "bad_free", "free(%p)", p);
    return;
  }
  size_t rn = (n + 7) & ~7ul;
  if (rn == 0) rn = 8;
  bset_(shadow + (off >> 3), 2, rn >> 3);
}
void* realloc(void* p, size_t n) {
  if (!p) return malloc(n);
  if (!in_arena(p)) {
    if (!use_arena()) return __libc_realloc(p, n);
    // libc block grown while active: move into arena is unsafe (unknown size); keep in libc
    return __libc_realloc(p, n);
  }
  size_t old = arena_block_size(p);
  void* q = use_arena() ? perturbed(arena_alloc(n, 16), n) : __libc_malloc(n);
  bcopy_(q, p, old < n ? old : n);
  free(p);
  return q;
}
void* memalign(size_t al, size_t n) {
  if (!use_arena()) return __libc_memalign(al, n);
  tso_drain_self();
  return perturbed(arena_alloc(n, al), n);
}
void* aligned_alloc(size_t al, size_t n) { return memalign(al, n); }
int posix_memalign(void** out, size_t al, size_t n) {
  void* p = memalign(al, n);
  if (!p) return ENOMEM;
  *out = p;
  return 0;
}
void* valloc(size_t n) { return memalign(4096, n); }
size_t malloc_usable_size(void* p) {
  if (!p) return 0;
  if (in_arena(p)) return arena_block_size(p);
  return 0;  // glibc exports no __libc_ variant; be conservative
}

// ---------------------------------------------------------------------------
// verdicts
static void vs_exit_run(int status) __attribute__((noreturn));
static void vs_ctx_switch(void** save_sp, void* load_sp);

static void finalize_result(int status) {
  vs_res->points = vs.points;
  if (vs.watch_hits) vs_label_add("watch_hits", vs.watch_hits);
  if (vs.spins_while_stalled) vs_label_add("stall_spins", vs.spins_while_stalled);
  for (int i = 0; i < VS_MAX_THREADS; i++) vs_res->watch_hits_t[i] = vs.watch_hits_t[i];
  for (int i = 0; i < VS_MAX_THREADS; i++) vs_res->points_t[i] = vs.points_t[i];
  uint64_t h = 1469598103934665603ull;
  for (uint32_t i = 0; i < vs_res->n_decisions; i++) {
    h = (h ^ vs_res->dec_point[i]) * 1099511628211ull;
    h = (h ^ vs_res->dec_tid[i]) * 1099511628211ull;
  }
  vs_res->trace_hash = h;
  vs_res->status = status;
}

void vs_violation(const char* kind, const char* fmt, ...) {
  vs.in_rt++;
  if (vs_res->status == 0) {
    strncpy(vs_res->kind, kind, sizeof vs_res->kind - 1);
    va_list ap;
    va_start(ap, fmt);
    vsnprintf(vs_res->detail, sizeof vs_res->detail, fmt, ap);
    va_end(ap);
    finalize_result(2);
  }
  vs_exit_run(2);
}
void vs_finish_ok(void) {
  vs.in_rt++;
  if (vs_res->status == 0) finalize_result(1);
  vs_exit_run(1);
}
void vs_inconclusive(const char* why) {
  vs.in_rt++;
  if (vs_res->status == 0) {
    strncpy(vs_res->kind, "inconclusive", sizeof vs_res->kind - 1);
    strncpy(vs_res->detail, why, sizeof vs_res->detail - 1);
    finalize_result(3);
  }
  vs_exit_run(3);
}

static void vs_exit_run(int status) {
  vs.exit_status = status;
  vs.active = 0;
  if (!vs.inproc) _exit(status == 1 ? 0 : (status == 2 ? 10 : 11));
  void* dummy;
  vs_ctx_switch(&dummy, vs.exit_sp);
  __builtin_unreachable();
}

void vs_label_add(const char* name, uint64_t v) {
  vs_result_t* r = vs_res;
  for (int i = 0; i < r->n_labels; i++)
    if (!strcmp(r->label_name[i], name)) {
      r->label_val[i] += v;
      return;
    }
  if (r->n_labels < VS_MAX_LABELS) {
    strncpy(r->label_name[r->n_labels], name, 31);
    r->label_val[r->n_labels++] = v;
  }
}
void vs_label_max(const char* name, uint64_t v) {
  vs_result_t* r = vs_res;
  for (int i = 0; i < r->n_labels; i++)
    if (!strcmp(r->label_name[i], name)) {
      if (v > r->label_val[i]) r->label_val[i] = v;
      return;
    }
  if (r->n_labels < VS_MAX_LABELS) {
    strncpy(r->label_name[r->n_labels], name, 31);
    r->label_val[r->n_labels++] = v;
  }
}

// ---------------------------------------------------------------------------
// context switch between virtual threads
__attribute__((naked, noinline)) static void vs_ctx_switch(void** save_sp, void* load_sp) {
  __asm__ volatile(
      "pushq %rbp\n\t"
      "pushq %rbx\n\t"
      "pushq %r12\n\t"
      "pushq %r13\n\t"
      "pushq %r14\n\t"
      "pushq %r15\n\t"
      "movq %rsp,(%rdi)\n\t"
      "movq %rsi,%rsp\n\t"
      "popq %r15\n\t"
      "popq %r14\n\t"
      "popq %r13\n\t"
      "popq %r12\n\t"
      "popq %rbx\n\t"
      "popq %rbp\n\t"
      "ret\n\t");
}

// ---------------------------------------------------------------------------
// TSO store buffers
static inline int is_stack_addr(uintptr_t a) {
  for (int i = 0; i < vs.n_stacks; i++)
    if (a >= vs.stacks[i].lo && a < vs.stacks[i].hi) return 1;
  return 0;
}
static void tso_capture_cur(void);
void vs_register_stack(const void* lo, size_t len) {
  if (vs.n_stacks < 512) {
    vs.stacks[vs.n_stacks].lo = (uintptr_t)lo;
    vs.stacks[vs.n_stacks].hi = (uintptr_t)lo + len;
    vs.n_stacks++;
  }
  // stores made into the region before it was known to be a stack (the initial frame written by
  // fiber_context_init) must not stay buffered: they would later be hidden / re-applied on top of the live stack
  if (ACTIVE && vs.cfg.tso && vs.cur) {
    tso_capture_cur();
    vthread_t* t = vs.cur;
    int k = 0;
    for (int i = 0; i < t->sb_n; i++) {
      uintptr_t a = t->sb[i].addr;
      if (a >= (uintptr_t)lo && a < (uintptr_t)lo + len) continue;  // running thread: memory already shows the value -> committed
      if (k != i) bcopy_(&t->sb[k], &t->sb[i], sizeof(sb_entry_t));
      k++;
    }
    t->sb_n = k;
  }
}

static void sb_push(vthread_t* t, uintptr_t addr, int size, const void* val, const void* prev) {
  if (t->sb_n == SB_MAX) {
    // commit the oldest (running thread: memory already shows it)
    bcopy_(&t->sb[0], &t->sb[1], (size_t)(t->sb_n - 1) * sizeof(sb_entry_t));
    t->sb_n--;
  }
  sb_entry_t* e = &t->sb[t->sb_n++];
  e->addr = addr;
  e->size = size;
  e->age = 0;
  bcopy_(e->val, val, size);
  bcopy_(e->prev, prev, size);
  vs_res->tso_buffered++;
}

// capture the plain store announced by the last __tsan_write hook
static inline void tso_capture(vthread_t* t) {
  if (!t->pend_size) return;
  int size = t->pend_size;
  t->pend_size = 0;
  void* p = (void*)t->pend_addr;
  if (is_stack_addr(t->pend_addr)) return;
  if (bcmp_(p, t->pend_old, size)) sb_push(t, t->pend_addr, size, p, t->pend_old);
}
static void tso_capture_cur(void) { tso_capture(vs.cur); }

static void tso_drain_self(void) {
  if (!vs.cfg.tso || !ACTIVE) return;
  vthread_t* t = vs.cur;
  tso_capture(t);
  t->sb_n = 0;
}
static void tso_drain_some(vthread_t* t, int k) {
  if (k >= t->sb_n) {
    t->sb_n = 0;
    return;
  }
  bcopy_(&t->sb[0], &t->sb[k], (size_t)(t->sb_n - k) * sizeof(sb_entry_t));
  t->sb_n -= k;
}
// switch-out: restore globally visible values
static void tso_hide(vthread_t* t) {
  for (int i = t->sb_n - 1; i >= 0; i--) bcopy_((void*)t->sb[i].addr, t->sb[i].prev, t->sb[i].size);
}
static void tso_apply(vthread_t* t) {
  for (int i = 0; i < t->sb_n; i++) {
    bcopy_(t->sb[i].prev, (void*)t->sb[i].addr, t->sb[i].size);
    bcopy_((void*)t->sb[i].addr, t->sb[i].val, t->sb[i].size);
  }
}
// memory is in its global state (everything hidden): commit overdue entries of all threads
static void tso_age_and_commit(void) {
  for (int i = 0; i < vs.nth; i++) {
    vthread_t* t = &vs.th[i];
    if (!t->sb_n) continue;
    int k = 0;
    for (int j = 0; j < t->sb_n; j++) {
      t->sb[j].age++;
      if (t->sb[j].age >= vs.tso_max_age) k = j + 1;
    }
    if (k == 0 && (rnd_tso() & 3) == 0) k = 1 + rnd_tso() % t->sb_n;
    for (int j = 0; j < k; j++) bcopy_((void*)t->sb[j].addr, t->sb[j].val, t->sb[j].size);
    if (k) tso_drain_some(t, k);
  }
}
static void tso_commit_all_of(vthread_t* t) {
  // t is not running and hidden
  for (int j = 0; j < t->sb_n; j++) bcopy_((void*)t->sb[j].addr, t->sb[j].val, t->sb[j].size);
  t->sb_n = 0;
}
static inline void tso_note_read(uintptr_t a, int size) {
  for (int i = 0; i < vs.nth; i++) {
    vthread_t* t = &vs.th[i];
    if (t == vs.cur) continue;
    for (int j = 0; j < t->sb_n; j++)
      if (a < t->sb[j].addr + t->sb[j].size && t->sb[j].addr < a + size) {
        vs_res->tso_hidden_reads++;
        return;
      }
  }
}

// ---------------------------------------------------------------------------
// scheduler core
static int runnable_count(void) {
  int n = 0;
  for (int i = 0; i < vs.nth; i++)
    if (vs.th[i].state == 1) n++;
  return n;
}

static void record_decision(int tid) {
  vs_result_t* r = vs_res;
  if (r->n_decisions < VS_MAX_DECISIONS) {
    r->dec_point[r->n_decisions] = (uint32_t)vs.points;
    r->dec_tid[r->n_decisions] = (uint8_t)tid;
    r->n_decisions++;
  } else {
    r->decisions_overflow = 1;
  }
}

static int replay_take(void);
static void set_next_event_replay(void);
static void engage_fair(void);
static void switch_to(vthread_t* nt) {
  vthread_t* ot = vs.cur;
  if (nt == ot) return;
  // replay: a switch the engine performs on its own (quiescence confirmation
  // hand-over) is in the recorded list too - consume it
  if (vs.cfg.strategy == VS_STRAT_REPLAY && !vs.replay_diverged && vs.replay_idx < vs.cfg.n_replay &&
      vs.cfg.replay_points[vs.replay_idx] == (uint32_t)vs.points && vs.cfg.replay_tids[vs.replay_idx] == nt->id) {
    vs.replay_idx++;
    uint64_t base = vs.points & ~0xffffffffull;
    if (vs.replay_idx < vs.cfg.n_replay) {
      uint64_t pnext = base | vs.cfg.replay_points[vs.replay_idx];
      if (pnext < vs.points) pnext += 1ull << 32;
      vs.next_event = pnext;
    }
  }
  record_decision(nt->id);
  vs_res->switches++;
  ot->saved_errno = errno;
  ot->run_len = 0;
  nt->run_len = 0;
  if (vs.cfg.tso) {
    tso_capture(ot);
    if (ot->sb_n && (rnd_tso() & 1)) tso_drain_some(ot, 1 + rnd_tso() % ot->sb_n);
    tso_hide(ot);
    tso_age_and_commit();
    tso_apply(nt);
  }
  vs.cur = nt;
  vs_ctx_switch(&ot->sp, nt->sp);
  // back on ot
  errno = ot->saved_errno;
  if (vs.cfg.strategy == VS_STRAT_REPLAY && !vs.replay_diverged) {
    // the recorded run may have switched away again at this very point (a thread resumed inside a scheduling
    // point goes on to the "event due?" test with the point counter the others advanced): take those now
    int tid;
    while ((tid = replay_take()) >= 0) {
      if (tid == ot->id) continue;
      if (tid >= vs.nth || vs.th[tid].state != 1) {
        vs.replay_diverged = 1;
        vs_label_add("replay_diverged", 1);
        engage_fair();
        return;
      }
      switch_to(&vs.th[tid]);
    }
    set_next_event_replay();
  }
}

static vthread_t* pick_highest(void) {
  vthread_t* best = 0;
  for (int i = 0; i < vs.nth; i++) {
    vthread_t* t = &vs.th[i];
    if (t->state != 1) continue;
    if (!best || t->prio > best->prio) best = t;
  }
  return best;
}
// release the stalled threads whose time is up (or all of them when 'all' is set)
static void release_stall_ex(int all) {
  for (int i = 0; i < vs.nth; i++)
    if (vs.th[i].state == 4 && (all || vs.fair || vs.points - vs.stall_since_t[i] > vs.cfg.stall_len || (vs.cfg.stall_spins && (vs.spins_while_stalled > vs.cfg.stall_spins ||
                                                   // hardly anybody polls: not a busy-wait for the held thread, no point in going on
                                                   (vs.points - vs.stall_since_t[i] > 2000000 && vs.spins_while_stalled * 64 < vs.points - vs.stall_since_t[i]))))) {
      vs.th[i].state = 1;
      vs.stalled_tid--;
      vs_label_add("stall_released", 1);
      if (!all && !vs.fair) vs_label_add("stall_expired", 1);  // its time ran out while others were still running
    }
}
static void release_stall(void) { release_stall_ex(1); }
static vthread_t* pick_random_other(void) {
  int n = 0;
  vthread_t* c[VS_MAX_THREADS];
  for (int i = 0; i < vs.nth; i++)
    if (vs.th[i].state == 1 && &vs.th[i] != vs.cur) c[n++] = &vs.th[i];
  if (!n) return vs.cur->state == 1 ? vs.cur : 0;
  return c[rnd() % n];
}
static vthread_t* pick_next_rr(void) {
  for (int k = 1; k <= vs.nth; k++) {
    vthread_t* t = &vs.th[(vs.cur->id + k) % vs.nth];
    if (t->state == 1) return t;
  }
  return 0;
}

static uint64_t geometric(int p_log2) {
  // gap until the next switch, mean ~2^p_log2: -mean*ln(u), ln via leading zeros
  uint64_t mean = 1ull << p_log2;
  uint64_t r = rnd() | 1;
  int lz = __builtin_clzll(r);
  double frac = lz < 40 ? (double)((r << (lz + 1)) >> 40) / 16777216.0 : 0.0;
  uint64_t g = (uint64_t)(((double)lz + frac) * 0.6931471805599453 * (double)mean);
  return g ? g : 1;
}

static int replay_take(void) {
  // returns tid to switch to, or -1
  if (vs.replay_idx < vs.cfg.n_replay && vs.cfg.replay_points[vs.replay_idx] == (uint32_t)vs.points) {
    return vs.cfg.replay_tids[vs.replay_idx++];
  }
  return -1;
}
static void set_next_event_replay(void) {
  if (vs.replay_idx < vs.cfg.n_replay) {
    uint64_t base = vs.points & ~0xffffffffull;
    uint64_t p = base | vs.cfg.replay_points[vs.replay_idx];
    if (p < vs.points) p += 1ull << 32;
    vs.next_event = p;
  } else {
    vs.next_event = ~0ull;
  }
}

static inline uint64_t fair_gap(void) { return 24 + (rnd() % 80); }  // irregular on purpose: a fixed period can resonate with the code under test
static void engage_fair(void) {
  if (!vs.fair) {
    vs.fair = 1;
    vs_label_add("fair_tail", 1);
  }
  vs.next_event = vs.points + fair_gap();
}

static void budget_check(void) {
  if (!vs.half_seen && vs.points > vs.cfg.hard_budget / 2) {
    vs.half_seen = 1;
    vs.marker_at_half = vs.marker;
  }
  if (vs.points > vs.cfg.hard_budget) {
    vs.in_rt++;
    if (vs.marker != vs.marker_at_half)
      vs_inconclusive("step budget exhausted while the program was still advancing (slow, not stuck)");
    char tb[160];
    int o = 0;
    for (int i = 0; i < vs.nth && o < 120; i++)
      o += snprintf(tb + o, sizeof tb - o, "T%d[st%d idle%d parked%d] ", i, vs.th[i].state, vs.th[i].idle_rounds, vs.th[i].parked_idle);
    vs_violation("livelock", "no program operation completed during the last %llu of %llu scheduling points (fair tail from %llu); %s%s",
                 (unsigned long long)(vs.cfg.hard_budget / 2), (unsigned long long)vs.points, (unsigned long long)vs.cfg.soft_budget, tb,
                 vs_describe_state ? vs_describe_state() : "");
  }
}

static inline void stall_check(void) {
  if (vs.stalled_tid > 0) release_stall_ex(0);
}
// the running thread cannot usefully continue (spin / idle poll): let others run
static void forced_yield(void) {
  if (!ACTIVE) return;
  budget_check();
  stall_check();
  vs.confirm_active = 0;
  vthread_t* nt = 0;
  if (vs.cfg.tso) {
    tso_capture(vs.cur);
    vs.cur->sb_n = 0;
  }
  if (vs.cfg.strategy == VS_STRAT_REPLAY && !vs.replay_diverged) {
    int tid = replay_take();
    if (tid >= 0 && tid < vs.nth && vs.th[tid].state == 1) {
      switch_to(&vs.th[tid]);
      set_next_event_replay();
    }
    return;  // a yield without a recorded switch stayed on the thread
  }
  if (vs.fair || vs.cfg.strategy == VS_STRAT_FAIR) {
    nt = pick_next_rr();
  } else if (vs.cfg.strategy == VS_STRAT_PCT) {
    vs.cur->prio = --vs.low_prio;
    nt = pick_highest();
  } else {
    nt = pick_random_other();
  }
  if (nt && nt != vs.cur) switch_to(nt);
}

static void slow_path(void) {
  budget_check();
  stall_check();
  if (vs.confirm_active) {
    if (vs.G == vs.confirm_G) {
      vs.next_event = vs.points + 64;
      return;
    }
    vs.confirm_active = 0;
  }
  if (!vs.fair && vs.points > vs.cfg.soft_budget && vs.cfg.strategy != VS_STRAT_REPLAY) engage_fair();
  if (vs.cfg.strategy == VS_STRAT_REPLAY && !vs.replay_diverged) {
    int tid = replay_take();
    if (tid >= 0) {
      if (tid < vs.nth && vs.th[tid].state == 1) {
        switch_to(&vs.th[tid]);
      } else {
        vs.replay_diverged = 1;
        vs_label_add("replay_diverged", 1);
        engage_fair();
        return;
      }
    }
    set_next_event_replay();
    if (vs.next_event == ~0ull) {
      // decisions exhausted: continue fairly
      vs.replay_diverged = 1;
      engage_fair();
    }
    return;
  }
  if (vs.fair || vs.cfg.strategy == VS_STRAT_FAIR) {
    vthread_t* nt = pick_next_rr();
    vs.next_event = vs.points + fair_gap();
    if (nt && nt != vs.cur) {
      vs_res->involuntary++;
      switch_to(nt);
    }
    return;
  }
  if (vs.cfg.strategy == VS_STRAT_RANDOM) {
    vthread_t* nt = pick_random_other();
    vs.next_event = vs.points + geometric(vs.cfg.p_log2);
    if (nt && nt != vs.cur) {
      vs_res->involuntary++;
      switch_to(nt);
    }
    return;
  }
  // PCT (plain or targeted)
  if (vs.cur->run_len > 3000 && runnable_count() > 1) {
    // starvation guard: demote a thread that ran very long without a switch
    vs.cur->prio = --vs.low_prio;
  } else if (!vs.cfg.targeted && vs.change_idx < vs.n_change && vs.points >= vs.change[vs.change_idx]) {
    vs.cur->prio = vs.cfg.pct_depth - vs.change_idx;
    vs.change_idx++;
  }
  {
    uint64_t ne = vs.points + 3000;
    if (!vs.cfg.targeted && vs.change_idx < vs.n_change && vs.change[vs.change_idx] < ne) ne = vs.change[vs.change_idx];
    if (ne <= vs.points) ne = vs.points + 1;
    vs.next_event = ne;
  }
  vthread_t* nt = pick_highest();
  if (nt && nt != vs.cur) {
    vs_res->involuntary++;
    switch_to(nt);
  }
}

static int runnable_count(void);
static void do_stall(vthread_t* t) {
  if (vs.stalled_tid >= 2 || vs.fair || runnable_count() <= 1) return;
  // not inside a quiescence confirmation round: its runner would be set aside in the middle of its idle-loop iteration (for
  // instance with a fiber it has just stolen in its hands) and the others would complete the round without it
  if (vs.confirm_active) return;
  vs.stalled_tid++;
  vs.stall_since_t[t->id] = vs.points;
  t->state = 4;  // stalled
  vs_label_add("stalled", 1);
  vthread_t* nt = pick_random_other();
  if (nt && nt != t) {
    vs_res->involuntary++;
    switch_to(nt);
  } else {
    release_stall();
  }
}
static inline int stall_hit(int tid, uint64_t idx) {
  return (vs.cfg.stall_thread == tid + 1 && idx == vs.cfg.stall_at) || (vs.cfg.stall_thread2 == tid + 1 && idx == vs.cfg.stall_at2);
}
static inline void watch_hit(void) {
  vs.watch_hits++;
  vthread_t* t = vs.cur;
  vs.watch_hits_t[t->id]++;
  // stall strategy: hold ONE thread at one of ITS OWN accesses to the watched object while all the others run on
  if (!vs.cfg.stall_any && vs.cfg.stall_thread && stall_hit(t->id, vs.watch_hits_t[t->id])) {
    do_stall(t);
    return;
  }
  if (vs.cfg.targeted && !vs.fair && vs.cfg.strategy == VS_STRAT_PCT && vs.change_idx < vs.n_change &&
      vs.watch_hits >= vs.change[vs.change_idx]) {
    vs.cur->prio = vs.cfg.pct_depth - vs.change_idx;
    vs.change_idx++;
    vthread_t* nt = pick_highest();
    if (nt && nt != vs.cur) {
      vs_res->involuntary++;
      switch_to(nt);
    }
  }
}

static inline void shadow_check(uintptr_t a, int size, int is_write) {
  if (arena && a - (uintptr_t)arena < ARENA_SIZE) {
    size_t off = a - (uintptr_t)arena;
    uint8_t s = shadow[off >> 3];
    uint8_t s2 = shadow[(off + size - 1) >> 3];
    if ((s != 1 || s2 != 1) && !(shadow_freed_ok && (s == 2 || s == 1) && (s2 == 2 || s2 == 1))) {
      if (!is_write && size == 8 && s == 2 && s2 == 2 && vs.cur->tol_freed_read8) {
        vs_res->tolerated_count++;
        int k = 0;
        while (k < vs_res->n_tolerated_pc && vs_res->tolerated_pc[k] != (uint64_t)(uintptr_t)vs.last_pc) k++;
        if (k == vs_res->n_tolerated_pc && k < 8) vs_res->tolerated_pc[vs_res->n_tolerated_pc++] = (uint64_t)(uintptr_t)vs.last_pc;
        return;
      }
      vs.in_rt++;
      vs_violation(s == 2 || s2 == 2 ? "use_after_reclaim" : "heap_out_of_bounds", "%s of %d bytes at %p (arena+%zu) by vthread %d at point %llu, pc %p",
                   is_write ? "write" : "read", size, (void*)a, off, vs.cur->id, (unsigned long long)vs.points, vs.last_pc);
    }
  }
}

static void owner_check(uintptr_t a) {
  for (int i = 0; i < vs.n_owned; i++)
    if (a >= vs.owned[i].lo && a < vs.owned[i].hi) {
      if (vs.owned[i].owner < 0) vs.owned[i].owner = vs.cur->id;
      else if (vs.owned[i].owner != vs.cur->id) {
        vs.in_rt++;
        vs_violation("owner_only_write", "%s (%p) is written by vthread %d, all earlier writes came from vthread %d: a field only its owner may write, pc %p",
                     vs.owned[i].what, (void*)a, vs.cur->id, vs.owned[i].owner, vs.last_pc);
      }
      return;
    }
}
void vs_owner_only(const void* p, size_t n, const char* what) {
  if (!ACTIVE || vs.n_owned >= 32) return;
  uintptr_t lo = (uintptr_t)p, hi = lo + n;
  vs.owned[vs.n_owned].lo = lo;
  vs.owned[vs.n_owned].hi = hi;
  vs.owned[vs.n_owned].owner = -1;
  vs.owned[vs.n_owned].what = what;
  if (!vs.n_owned || lo < vs.owned_min) vs.owned_min = lo;
  if (!vs.n_owned || hi > vs.owned_max) vs.owned_max = hi;
  vs.n_owned++;
}
static inline void sched_point(uintptr_t a, int size, int is_write) {
  if (!ACTIVE || vs.in_rt) return;
  vthread_t* t = vs.cur;
  void* const my_pc = vs.last_pc;  // other threads run (and set last_pc) if this point switches away
  if (vs.cfg.tso) tso_capture(t);
  vs.points++;
  t->run_len++;
  {
    // "stall at any access" flavour: the thread's own k-th scheduling point
    uint64_t idx = ++vs.points_t[t->id];
    if (vs.cfg.stall_any && vs.cfg.stall_thread && stall_hit(t->id, idx)) do_stall(t);
  }
  if (vs.n_watch) {
    for (int i = 0; i < vs.n_watch; i++)
      if (a >= vs.watch[i].lo && a < vs.watch[i].hi) {
        watch_hit();
        break;
      }
  }
  if (vs.points >= vs.next_event) slow_path();
  // the heap check comes last: whatever other threads did while this one was switched out at this very point
  // (e.g. freed the object) is what the access that follows the hook will meet
  vs.last_pc = my_pc;
  if (is_write && vs.n_owned && a >= vs.owned_min && a < vs.owned_max) owner_check(a);
  if (size) shadow_check(a, size, is_write);
}

void vs_watch(const void* lo, size_t len) {
  if (vs.n_watch < MAX_RANGES) {
    vs.watch[vs.n_watch].lo = (uintptr_t)lo;
    vs.watch[vs.n_watch].hi = (uintptr_t)lo + len;
    vs.n_watch++;
  }
}
void vs_op_begin(void) { vs.cur->in_op++; }
void vs_op_end(void) { vs.cur->in_op--; }
void vs_rt_enter(void) { vs.in_rt++; }
void vs_rt_exit(void) { vs.in_rt--; }
int vs_active(void) { return ACTIVE; }
int vs_self(void) { return curth()->id; }
uint64_t vs_points(void) { return vs.points; }

// ---------------------------------------------------------------------------
// virtual threads
static void thread_finish(void) __attribute__((noreturn));
static void thread_finish(void) {
  vthread_t* t = vs.cur;
  if (vs.cfg.tso) {
    tso_capture(t);
    t->sb_n = 0;
  }
  t->state = 3;
  for (int i = 0; i < vs.nth; i++)
    if (vs.th[i].state == 2 && vs.th[i].join_target == t->id) vs.th[i].state = 1;
  vs.points++;
  for (;;) {
    vthread_t* nt = 0;
    if (vs.cfg.strategy == VS_STRAT_REPLAY && !vs.replay_diverged) {
      int tid = replay_take();
      if (tid >= 0 && tid < vs.nth && vs.th[tid].state == 1) nt = &vs.th[tid];
    }
    if (!nt) nt = (vs.cfg.strategy == VS_STRAT_PCT && !vs.fair) ? pick_highest() : pick_next_rr();
    if (!nt && vs.stalled_tid > 0) {
      release_stall();
      nt = pick_next_rr();
    }
    if (!nt) {
      vs.in_rt++;
      vs_violation("engine_deadlock", "all virtual threads finished or blocked");
    }
    switch_to(nt);
  }
}

static void thread_entry(void) {
  vthread_t* t = vs.cur;
  errno = 0;
  t->ret = t->fn(t->arg);
  thread_finish();
}

static vthread_t* thread_new(void* (*fn)(void*), void* arg) {
  if (vs.nth >= VS_MAX_THREADS) {
    vs.in_rt++;
    vs_violation("engine_limit", "too many virtual threads");
  }
  vthread_t* t = &vs.th[vs.nth];
  bset_(t, 0, sizeof *t);
  t->id = vs.nth++;
  t->state = 1;
  t->fn = fn;
  t->arg = arg;
  t->stack_size = VS_STACK_SIZE;
  t->stack = mmap(0, t->stack_size, PROT_READ | PROT_WRITE, MAP_PRIVATE | MAP_ANONYMOUS | MAP_NORESERVE, -1, 0);
  vs_register_stack(t->stack, t->stack_size);
  uintptr_t top = ((uintptr_t)t->stack + t->stack_size) & ~0xful;
  void** sp = (void**)(top - 16);
  sp[0] = (void*)thread_entry;
  sp[1] = 0;
  for (int i = 0; i < 6; i++) *--sp = 0;
  t->sp = sp;
  t->prio = (int64_t)(vs.cfg.pct_depth + 2) * 1000 + (int64_t)(rnd() % 997) * 8 + t->id;
  return t;
}

int vs_thread_create(void* (*fn)(void*), void* arg) {
  vs.in_rt++;
  tso_drain_self();
  vthread_t* t = thread_new(fn, arg);
  vs.in_rt--;
  // PCT: a newly created higher-priority thread runs at once
  if (ACTIVE && !vs.in_rt) {
    vs.points++;  // engine events get a point of their own so that replay can tell them apart
    if (vs.cfg.strategy == VS_STRAT_PCT && !vs.fair) {
      vthread_t* nt = pick_highest();
      if (nt != vs.cur) switch_to(nt);
    } else if (vs.cfg.strategy == VS_STRAT_REPLAY) {
      int tid = replay_take();
      if (tid >= 0 && tid < vs.nth && vs.th[tid].state == 1) {
        switch_to(&vs.th[tid]);
        set_next_event_replay();
      }
    } else if (vs.cfg.strategy == VS_STRAT_RANDOM && (rnd() & 1)) {
      switch_to(t);
    }
  }
  return t->id;
}

void vs_thread_join(int tid) {
  vthread_t* t = vs.cur;
  tso_drain_self();
  while (vs.th[tid].state != 3) {
    t->state = 2;
    t->join_target = tid;
    vs.points++;
    vthread_t* nt = 0;
    if (vs.cfg.strategy == VS_STRAT_REPLAY && !vs.replay_diverged) {
      int r = replay_take();
      if (r >= 0 && r < vs.nth && vs.th[r].state == 1) nt = &vs.th[r];
    }
    if (!nt) nt = (vs.cfg.strategy == VS_STRAT_PCT && !vs.fair) ? pick_highest() : pick_next_rr();
    if (!nt && vs.stalled_tid > 0) {
      release_stall();
      nt = pick_next_rr();
    }
    if (!nt) {
      vs.in_rt++;
      vs_violation("engine_deadlock", "join with nothing runnable");
    }
    switch_to(nt);
    if (vs.cfg.strategy == VS_STRAT_REPLAY) set_next_event_replay();
  }
}

// ---------------------------------------------------------------------------
// run control
static vs_main_fn run_fn;
static void* run_arg;
static void* run_main_tramp(void* a) {
  (void)a;
  run_fn(run_arg);
  vs_finish_ok();
  return 0;
}
static void run_entry(void) {
  run_main_tramp(0);
  __builtin_unreachable();
}

static char* main_stack;
int vs_run_inproc(const vs_config_t* cfg, vs_main_fn fn, void* arg) {
  // reset
  for (int i = 1; i < vs.nth; i++) {
    if (vs.th[i].stack) munmap(vs.th[i].stack, vs.th[i].stack_size);
    vs.th[i].stack = 0;
    vs.th[i].state = 0;
  }
  vs.nth = 1;
  vs.cur = th0;
  th0->state = 1;
  th0->sb_n = 0;
  th0->pend_size = 0;
  th0->run_len = 0;
  th0->idle_rounds = 0;
  th0->last_G = 0;
  bcopy_(&vs.cfg, cfg, sizeof vs.cfg);
  if (!vs.cfg.soft_budget) vs.cfg.soft_budget = 2000000;
  if (!vs.cfg.hard_budget) vs.cfg.hard_budget = vs.cfg.soft_budget * 10;
  vs.points = 0;
  vs.rng = cfg->seed * 0x9E3779B97F4A7C15ull + 0x1234567ull;
  if (!vs.rng) vs.rng = 88172645463325252ull;
  for (int i = 0; i < 4; i++) rnd();
  vs.fair = 0;
  vs.low_prio = 0;
  vs.n_change = vs.change_idx = 0;
  vs.watch_hits = 0;
  bset_(vs.watch_hits_t, 0, sizeof vs.watch_hits_t);
  bset_(vs.points_t, 0, sizeof vs.points_t);
  vs.stalled_tid = 0;
  vs.spins_while_stalled = 0;
  if (!vs.cfg.stall_len) vs.cfg.stall_len = 20000;
  vs.n_watch = 0;
  vs.n_stacks = 0;
  vs.replay_idx = 0;
  vs.replay_diverged = 0;
  vs.G = 0;
  vs.marker = vs.marker_at_half = 0;
  vs.half_seen = 0;
  vs.confirm_active = 0;
  vs.qcb = 0;
  vs.ticks_delivered = vs.ticks_read = 0;
  vs.in_rt = 0;
  rng_tso = cfg->seed * 0xD1B54A32D192ED03ull + 0x9876543ull;
  if (!rng_tso) rng_tso = 1;
  for (int i = 0; i < 4; i++) rnd_tso();
  vs.tso_max_age = 2 + rnd_tso() % 10;
  vs_real_sleep_calls = 0;
  bset_((void*)vs_res, 0, sizeof *vs_res);
  arena_reset();
  th0->prio = (int64_t)(cfg->pct_depth + 2) * 1000 + (int64_t)(rnd() % 997) * 8;
  if (cfg->strategy == VS_STRAT_PCT) {
    int d = cfg->pct_depth;
    if (d > 16) d = 16;
    uint64_t k = cfg->pct_k ? cfg->pct_k : 10000;
    for (int i = 0; i < d; i++) vs.change[i] = 1 + rnd() % k;
    // sort
    for (int i = 0; i < d; i++)
      for (int j = i + 1; j < d; j++)
        if (vs.change[j] < vs.change[i]) {
          uint64_t t = vs.change[i];
          vs.change[i] = vs.change[j];
          vs.change[j] = t;
        }
    vs.n_change = d;
    vs.next_event = (d && !cfg->targeted) ? vs.change[0] : 3000;
  } else if (cfg->strategy == VS_STRAT_RANDOM) {
    vs.next_event = geometric(cfg->p_log2);
  } else if (cfg->strategy == VS_STRAT_REPLAY) {
    set_next_event_replay();
  } else {
    vs.next_event = 64;
  }
  // main virtual thread runs on its own stack so that verdicts can unwind by switching away
  if (!main_stack) main_stack = mmap(0, VS_STACK_SIZE, PROT_READ | PROT_WRITE, MAP_PRIVATE | MAP_ANONYMOUS | MAP_NORESERVE, -1, 0);
  vs_register_stack(main_stack, VS_STACK_SIZE);
  uintptr_t top = ((uintptr_t)main_stack + VS_STACK_SIZE) & ~0xful;
  void** sp = (void**)(top - 16);
  sp[0] = (void*)run_entry;
  sp[1] = 0;
  for (int i = 0; i < 6; i++) *--sp = 0;
  run_fn = fn;
  run_arg = arg;
  vs.inproc = 1;
  vs.exit_status = 0;
  int saved_errno = errno;
  vs_owner = 1;
  vs.active = 1;
  vs_ctx_switch(&vs.exit_sp, sp);
  // back here after vs_exit_run
  vs.active = 0;
  vs_owner = 0;
  vs.cur = th0;
  errno = saved_errno;
  return vs.exit_status;
}

void vs_begin(const vs_config_t* cfg) { (void)cfg; }
void vs_end(void) {}

// ---------------------------------------------------------------------------
// TSan ABI
void __tsan_init(void) {}
void __tsan_func_entry(void* pc) { (void)pc; }
void __tsan_func_exit(void) {}
void __tsan_ignore_thread_begin(void) {}
void __tsan_ignore_thread_end(void) {}
void __tsan_vptr_update(void** vptr_p, void* new_val) {
  (void)new_val;
  sched_point((uintptr_t)vptr_p, 8, 1);
}
void __tsan_vptr_read(void** vptr_p) { sched_point((uintptr_t)vptr_p, 8, 0); }

static inline void on_read(void* a, int size) {
  sched_point((uintptr_t)a, size, 0);
  if (ACTIVE && vs.cfg.tso && !vs.in_rt) tso_note_read((uintptr_t)a, size);
}
static inline void on_write(void* a, int size) {
  sched_point((uintptr_t)a, size, 1);
  if (ACTIVE && vs.cfg.tso && !vs.in_rt && size <= 16 && !is_stack_addr((uintptr_t)a)) {
    vthread_t* t = vs.cur;
    t->pend_addr = (uintptr_t)a;
    t->pend_size = size;
    bcopy_(t->pend_old, a, size);
  }
}
#define RW(n)                                                   \
  void __tsan_read##n(void* a) { vs.last_pc = __builtin_return_address(0); on_read(a, n); }               \
  void __tsan_write##n(void* a) { vs.last_pc = __builtin_return_address(0); on_write(a, n); }             \
  void __tsan_unaligned_read##n(void* a) { on_read(a, n); }     \
  void __tsan_unaligned_write##n(void* a) { on_write(a, n); }   \
  void __tsan_volatile_read##n(void* a) { on_read(a, n); }      \
  void __tsan_volatile_write##n(void* a) { on_write(a, n); }    \
  void __tsan_read##n##_pc(void* a, void* pc) { (void)pc; on_read(a, n); } \
  void __tsan_write##n##_pc(void* a, void* pc) { (void)pc; on_write(a, n); }
RW(1) RW(2) RW(4) RW(8) RW(16)

void __tsan_read_range(void* a, unsigned long n) {
  sched_point((uintptr_t)a, n ? (n > 4096 ? 4096 : (int)n) : 0, 0);
}
void __tsan_write_range(void* a, unsigned long n) {
  if (ACTIVE && !vs.in_rt) tso_drain_self();
  sched_point((uintptr_t)a, n ? (n > 4096 ? 4096 : (int)n) : 0, 1);
}

enum { MO_RELAXED, MO_CONSUME, MO_ACQUIRE, MO_RELEASE, MO_ACQ_REL, MO_SEQ_CST };

static inline void atomic_pre(void* a, int size, int is_write) {
  sched_point((uintptr_t)a, size, is_write);
}
static inline void full_barrier(void) {
  if (ACTIVE && vs.cfg.tso && !vs.in_rt) tso_drain_self();
}

#define ATOMICS(T, n)                                                                                      \
  T __tsan_atomic##n##_load(const volatile T* a, int mo) {                                                  \
    (void)mo;                                                                                               \
    vs.last_pc = __builtin_return_address(0);                                                               \
    atomic_pre((void*)a, sizeof(T), 0);                                                                     \
    if (ACTIVE && vs.cfg.tso && !vs.in_rt) tso_note_read((uintptr_t)a, sizeof(T));                      \
    return *a;                                                                                              \
  }                                                                                                         \
  void __tsan_atomic##n##_store(volatile T* a, T v, int mo) {                                               \
    atomic_pre((void*)a, sizeof(T), 1);                                                                     \
    if (ACTIVE && vs.cfg.tso && !vs.in_rt) {                                                             \
      if (mo == MO_SEQ_CST) {                                                                               \
        tso_drain_self();                                                                                   \
        *a = v;                                                                                             \
      } else if (is_stack_addr((uintptr_t)a)) {                                                             \
        *a = v;                                                                                             \
      } else {                                                                                              \
        T old = *a;                                                                                         \
        sb_push(vs.cur, (uintptr_t)a, sizeof(T), &v, &old);                                                 \
        *a = v;                                                                                             \
      }                                                                                                     \
    } else {                                                                                                \
      *a = v;                                                                                               \
    }                                                                                                       \
  }                                                                                                         \
  T __tsan_atomic##n##_exchange(volatile T* a, T v, int mo) {                                               \
    (void)mo;                                                                                               \
    atomic_pre((void*)a, sizeof(T), 1);                                                                     \
    full_barrier();                                                                                         \
    T o = *a;                                                                                               \
    *a = v;                                                                                                 \
    return o;                                                                                               \
  }                                                                                                         \
  T __tsan_atomic##n##_fetch_add(volatile T* a, T v, int mo) {                                              \
    (void)mo;                                                                                               \
    atomic_pre((void*)a, sizeof(T), 1);                                                                     \
    full_barrier();                                                                                         \
    T o = *a;                                                                                               \
    *a = o + v;                                                                                             \
    return o;                                                                                               \
  }                                                                                                         \
  T __tsan_atomic##n##_fetch_sub(volatile T* a, T v, int mo) {                                              \
    (void)mo;                                                                                               \
    atomic_pre((void*)a, sizeof(T), 1);                                                                     \
    full_barrier();                                                                                         \
    T o = *a;                                                                                               \
    *a = o - v;                                                                                             \
    return o;                                                                                               \
  }                                                                                                         \
  T __tsan_atomic##n##_fetch_and(volatile T* a, T v, int mo) {                                              \
    (void)mo;                                                                                               \
    atomic_pre((void*)a, sizeof(T), 1);                                                                     \
    full_barrier();                                                                                         \
    T o = *a;                                                                                               \
    *a = o & v;                                                                                             \
    return o;                                                                                               \
  }                                                                                                         \
  T __tsan_atomic##n##_fetch_or(volatile T* a, T v, int mo) {                                               \
    (void)mo;                                                                                               \
    atomic_pre((void*)a, sizeof(T), 1);                                                                     \
    full_barrier();                                                                                         \
    T o = *a;                                                                                               \
    *a = o | v;                                                                                             \
    return o;                                                                                               \
  }                                                                                                         \
  T __tsan_atomic##n##_fetch_xor(volatile T* a, T v, int mo) {                                              \
    (void)mo;                                                                                               \
    atomic_pre((void*)a, sizeof(T), 1);                                                                     \
    full_barrier();                                                                                         \
    T o = *a;                                                                                               \
    *a = o ^ v;                                                                                             \
    return o;                                                                                               \
  }                                                                                                         \
  T __tsan_atomic##n##_fetch_nand(volatile T* a, T v, int mo) {                                             \
    (void)mo;                                                                                               \
    atomic_pre((void*)a, sizeof(T), 1);                                                                     \
    full_barrier();                                                                                         \
    T o = *a;                                                                                               \
    *a = ~(o & v);                                                                                          \
    return o;                                                                                               \
  }                                                                                                         \
  int __tsan_atomic##n##_compare_exchange_strong(volatile T* a, T* c, T v, int mo, int fmo) {               \
    (void)mo;                                                                                               \
    (void)fmo;                                                                                              \
    atomic_pre((void*)a, sizeof(T), 1);                                                                     \
    full_barrier();                                                                                         \
    T o = *a;                                                                                               \
    if (o == *c) {                                                                                          \
      *a = v;                                                                                               \
      return 1;                                                                                             \
    }                                                                                                       \
    *c = o;                                                                                                 \
    return 0;                                                                                               \
  }                                                                                                         \
  int __tsan_atomic##n##_compare_exchange_weak(volatile T* a, T* c, T v, int mo, int fmo) {                 \
    return __tsan_atomic##n##_compare_exchange_strong(a, c, v, mo, fmo);                                    \
  }                                                                                                         \
  T __tsan_atomic##n##_compare_exchange_val(volatile T* a, T c, T v, int mo, int fmo) {                     \
    __tsan_atomic##n##_compare_exchange_strong(a, &c, v, mo, fmo);                                          \
    return c;                                                                                               \
  }
ATOMICS(uint8_t, 8)
ATOMICS(uint16_t, 16)
ATOMICS(uint32_t, 32)
ATOMICS(uint64_t, 64)
typedef unsigned __int128 u128;
ATOMICS(u128, 128)

void __tsan_atomic_thread_fence(int mo) {
  sched_point(0, 0, 0);
  if (mo == MO_SEQ_CST) full_barrier();
}
void __tsan_atomic_signal_fence(int mo) { (void)mo; }

// ---------------------------------------------------------------------------
// hooks from the guarded sites in /repo (machine_specific.h)
static uint64_t spin_calls_t[VS_MAX_THREADS];
int vs_long_stall_run(void) { return ACTIVE && vs.cfg.stall_spins != 0; }
uint64_t vs_spin_calls(void) { return ACTIVE && vs.cur ? spin_calls_t[vs.cur->id] : 0; }
void verif_spin(void) {
  if (!ACTIVE || vs.in_rt) return;
  spin_calls_t[vs.cur->id]++;
  if (vs.stalled_tid > 0) vs.spins_while_stalled++;
  vs.points++;
  // long-stall runs: the busy-waiting thread hands over at every 16th poll only (the other threads are mostly idle pollers, and
  // 2^26 polls have to fit into the run)
  if (vs.cfg.stall_spins && vs.stalled_tid > 0 && (spin_calls_t[vs.cur->id] & 15)) return;
  forced_yield();
}
void verif_dwcas(volatile void* location) {
  sched_point((uintptr_t)location, 16, 1);
  full_barrier();
}
void verif_fence(void) {
  sched_point(0, 0, 0);
  full_barrier();
}

// ---------------------------------------------------------------------------
// mem* interposition (the optimiser emits these inside instrumented code)
void* memset(void* d, int c, size_t n) {
  if (ACTIVE && !vs.in_rt) {
    tso_drain_self();
    sched_point((uintptr_t)d, n ? (n > 4096 ? 4096 : (int)n) : 0, 1);
  }
  bset_(d, c, n);
  return d;
}
void* memcpy(void* d, const void* s, size_t n) {
  if (ACTIVE && !vs.in_rt) {
    tso_drain_self();
    sched_point((uintptr_t)s, n ? (n > 4096 ? 4096 : (int)n) : 0, 0);
    sched_point((uintptr_t)d, n ? (n > 4096 ? 4096 : (int)n) : 0, 1);
  }
  bcopy_(d, s, n);
  return d;
}
void* memmove(void* d, const void* s, size_t n) {
  if (ACTIVE && !vs.in_rt) {
    tso_drain_self();
    sched_point((uintptr_t)s, n ? (n > 4096 ? 4096 : (int)n) : 0, 0);
    sched_point((uintptr_t)d, n ? (n > 4096 ? 4096 : (int)n) : 0, 1);
  }
  bcopy_(d, s, n);
  return d;
}

// qsort is called by the hazard-pointer scan on memory the caller has just stored to: an uninstrumented
// writer must never run on top of buffered stores (they would be re-applied over its result)
void qsort(void* base, size_t n, size_t sz, int (*cmp)(const void*, const void*)) {
  static void (*real)(void*, size_t, size_t, int (*)(const void*, const void*));
  if (!real) real = (void (*)(void*, size_t, size_t, int (*)(const void*, const void*)))real_sym("qsort");
  if (ACTIVE && !vs.in_rt) {
    tso_drain_self();
    sched_point((uintptr_t)base, 0, 1);
  }
  real(base, n, sz, cmp);
}
// full fence on behalf of the harness (operation boundary in TSO mode)
void vs_drain(void) {
  if (ACTIVE) tso_drain_self();
}

// ---------------------------------------------------------------------------
// emulated TLS
typedef struct emutls_ctrl {
  size_t size;
  size_t align;
  union {
    uintptr_t index;
    void* address;
  } u;
  void* templ;
} emutls_ctrl_t;
static uintptr_t emutls_count;

void* __emutls_get_address(emutls_ctrl_t* c) {
  if (!c->u.index) {
    c->u.index = ++emutls_count;
    if (emutls_count >= VS_MAX_TLS) {
      const char m[] = "vsched: too many TLS variables\n";
      (void)!syscall(SYS_write, 2, m, sizeof m - 1);
      _exit(97);
    }
  }
  vthread_t* t = curth();
  void* p = t->tls[c->u.index];
  if (!p) {
    size_t al = c->align < 16 ? 16 : c->align;
    p = __libc_memalign(al, c->size ? c->size : 1);
    if (c->templ)
      bcopy_(p, c->templ, c->size);
    else
      bset_(p, 0, c->size);
    t->tls[c->u.index] = p;
  }
  return p;
}

// ---------------------------------------------------------------------------
// pthread subset -> virtual threads
typedef int (*pthread_create_fn)(pthread_t*, const pthread_attr_t*, void* (*)(void*), void*);
typedef int (*pthread_join_fn)(pthread_t, void**);
static void* real_sym(const char* name);

int pthread_create(pthread_t* out, const pthread_attr_t* attr, void* (*fn)(void*), void* arg) {
  if (!ACTIVE) {
    static pthread_create_fn real;
    if (!real) real = (pthread_create_fn)real_sym("pthread_create");
    return real(out, attr, fn, arg);
  }
  int id = vs_thread_create(fn, arg);
  *out = (pthread_t)(uintptr_t)(id + 1);
  return 0;
}
int pthread_join(pthread_t t, void** ret) {
  if (!ACTIVE) {
    static pthread_join_fn real;
    if (!real) real = (pthread_join_fn)real_sym("pthread_join");
    return real(t, ret);
  }
  int id = (int)(uintptr_t)t - 1;
  vs_thread_join(id);
  if (ret) *ret = vs.th[id].ret;
  return 0;
}
static int vs_ever_active;
pthread_t pthread_self(void) {
  if (!ACTIVE && !(vs_ever_active && vs_owner)) {
    static pthread_t (*real)(void);
    if (!real) real = (pthread_t(*)(void))real_sym("pthread_self");
    return real();
  }
  return (pthread_t)(uintptr_t)(curth()->id + 1);
}
int pthread_equal(pthread_t a, pthread_t b) { return a == b; }

// ---------------------------------------------------------------------------
// dlsym interposition: lets us trap the *real* sleeps libfiber looks up
typedef void* (*dlsym_fn)(void*, const char*);
static dlsym_fn real_dlsym;
static void init_real_dlsym(void) {
  if (!real_dlsym) {
    real_dlsym = (dlsym_fn)dlvsym(RTLD_NEXT, "dlsym", "GLIBC_2.34");
    if (!real_dlsym) real_dlsym = (dlsym_fn)dlvsym(RTLD_NEXT, "dlsym", "GLIBC_2.2.5");
    if (!real_dlsym) {
      const char m[] = "vsched: cannot find real dlsym\n";
      (void)!syscall(SYS_write, 2, m, sizeof m - 1);
      _exit(97);
    }
  }
}
static void* real_sym(const char* name) {
  init_real_dlsym();
  return real_dlsym(RTLD_NEXT, name);
}

static void real_sleep_reached(const char* which) {
  vs_real_sleep_calls++;
  if (vs_on_real_sleep) vs_on_real_sleep(which);
}
static int trap_usleep(useconds_t us) {
  if (!ACTIVE) return (int)syscall(SYS_nanosleep, &(struct timespec){us / 1000000, (us % 1000000) * 1000}, 0);
  real_sleep_reached("usleep");
  forced_yield();
  return 0;
}
static unsigned trap_sleep(unsigned s) {
  if (!ACTIVE) return (unsigned)syscall(SYS_nanosleep, &(struct timespec){s, 0}, 0);
  real_sleep_reached("sleep");
  forced_yield();
  return 0;
}
static int trap_nanosleep(const struct timespec* a, struct timespec* b) {
  if (!ACTIVE) return (int)syscall(SYS_nanosleep, a, b);
  real_sleep_reached("nanosleep");
  forced_yield();
  return 0;
}

// ---------------------------------------------------------------------------
// The real I/O calls libfiber looks up with dlsym(RTLD_NEXT, ...): a call that reaches the kernel on a pipe or socket that is
// in blocking mode *in the kernel* and cannot complete at once would put the kernel thread to sleep - every fiber on it, not
// just the caller.  With one OS thread under the virtual threads nobody could ever wake it, so the engine decides the
// outcome before making the call: reads/accepts by polling, writes by making the call non-blocking and looking for a short
// count (a blocking write only returns once everything is written).
static int kernel_blocking_stream(int fd) {
  long fl = syscall(SYS_fcntl, fd, F_GETFL);
  if (fl < 0 || (fl & O_NONBLOCK)) return 0;
  struct stat st;
  if (syscall(SYS_fstat, fd, &st) != 0) return 0;
  return S_ISFIFO(st.st_mode) || S_ISSOCK(st.st_mode);
}
static void would_block(const char* call, int fd) __attribute__((noreturn));
static void would_block(const char* call, int fd) {
  vs_violation("kernel_thread_blocked",
               "%s(fd %d) reached the kernel with the descriptor in blocking mode (O_NONBLOCK clear in the kernel) and the call cannot complete at once: "
               "the kernel thread sleeps in the call, with every fiber on it, instead of just the calling fiber",
               call, fd);
}
static void guard_in(const char* call, int fd, int dontwait) {
  vs_drain();  // kernel entry: the caller's earlier stores are visible before the call takes effect
  if (!ACTIVE || dontwait || !kernel_blocking_stream(fd)) return;
  struct pollfd p = {fd, POLLIN, 0};
  if (syscall(SYS_poll, &p, 1, 0) == 0) would_block(call, fd);
}
// returns 1 when the write must be made in temporarily-non-blocking mode (caller checks for a short count)
static int guard_out_begin(int fd, int dontwait) {
  vs_drain();
  if (!ACTIVE || dontwait || !kernel_blocking_stream(fd)) return 0;
  long fl = syscall(SYS_fcntl, fd, F_GETFL);
  syscall(SYS_fcntl, fd, F_SETFL, fl | O_NONBLOCK);
  return 1;
}
static void guard_out_end(const char* call, int fd, ssize_t r, size_t want) {
  long fl = syscall(SYS_fcntl, fd, F_GETFL);
  if (fl >= 0) syscall(SYS_fcntl, fd, F_SETFL, fl & ~O_NONBLOCK);
  if ((r < 0 && (errno == EAGAIN || errno == EWOULDBLOCK)) || (r >= 0 && (size_t)r < want)) would_block(call, fd);
}
static size_t iov_total(const struct iovec* v, int n) {
  size_t t = 0;
  for (int i = 0; i < n; i++) t += v[i].iov_len;
  return t;
}
static ssize_t g_read(int fd, void* b, size_t n) {
  guard_in("read", fd, 0);
  return syscall(SYS_read, fd, b, n);
}
static ssize_t g_readv(int fd, const struct iovec* v, int n) {
  guard_in("readv", fd, 0);
  return syscall(SYS_readv, fd, v, n);
}
static ssize_t g_recv(int fd, void* b, size_t n, int fl) {
  guard_in("recv", fd, fl & MSG_DONTWAIT);
  return syscall(SYS_recvfrom, fd, b, n, fl, 0, 0);
}
static ssize_t g_recvfrom(int fd, void* b, size_t n, int fl, struct sockaddr* a, socklen_t* al) {
  guard_in("recvfrom", fd, fl & MSG_DONTWAIT);
  return syscall(SYS_recvfrom, fd, b, n, fl, a, al);
}
static ssize_t g_recvmsg(int fd, struct msghdr* m, int fl) {
  guard_in("recvmsg", fd, fl & MSG_DONTWAIT);
  return syscall(SYS_recvmsg, fd, m, fl);
}
static int g_accept(int fd, struct sockaddr* a, socklen_t* al) {
  guard_in("accept", fd, 0);
  return (int)syscall(SYS_accept, fd, a, al);
}
static ssize_t g_write(int fd, const void* b, size_t n) {
  int g = guard_out_begin(fd, 0);
  ssize_t r = syscall(SYS_write, fd, b, n);
  if (g) guard_out_end("write", fd, r, n);
  return r;
}
static ssize_t g_writev(int fd, const struct iovec* v, int n) {
  int g = guard_out_begin(fd, 0);
  ssize_t r = syscall(SYS_writev, fd, v, n);
  if (g) guard_out_end("writev", fd, r, iov_total(v, n));
  return r;
}
static ssize_t g_send(int fd, const void* b, size_t n, int fl) {
  int g = guard_out_begin(fd, fl & MSG_DONTWAIT);
  ssize_t r = syscall(SYS_sendto, fd, b, n, fl, 0, 0);
  if (g) guard_out_end("send", fd, r, n);
  return r;
}
static ssize_t g_sendto(int fd, const void* b, size_t n, int fl, const struct sockaddr* a, socklen_t al) {
  int g = guard_out_begin(fd, fl & MSG_DONTWAIT);
  ssize_t r = syscall(SYS_sendto, fd, b, n, fl, a, al);
  if (g) guard_out_end("sendto", fd, r, n);
  return r;
}
static int g_close(int fd) {
  vs_drain();
  return (int)syscall(SYS_close, fd);
}
static ssize_t g_sendmsg(int fd, const struct msghdr* m, int fl) {
  int g = guard_out_begin(fd, fl & MSG_DONTWAIT);
  ssize_t r = syscall(SYS_sendmsg, fd, m, fl);
  if (g) guard_out_end("sendmsg", fd, r, iov_total(m->msg_iov, (int)m->msg_iovlen));
  return r;
}

void* dlsym(void* handle, const char* name) {
  init_real_dlsym();
  if (handle == RTLD_NEXT || handle == RTLD_DEFAULT) {
    static const struct { const char* n; void* f; } io[] = {
        {"read", (void*)g_read}, {"readv", (void*)g_readv}, {"recv", (void*)g_recv}, {"recvfrom", (void*)g_recvfrom}, {"recvmsg", (void*)g_recvmsg},
        {"accept", (void*)g_accept}, {"write", (void*)g_write}, {"writev", (void*)g_writev}, {"send", (void*)g_send}, {"sendto", (void*)g_sendto},
        {"sendmsg", (void*)g_sendmsg}, {"close", (void*)g_close}};
    for (unsigned i = 0; i < sizeof io / sizeof io[0]; i++)
      if (!strcmp(name, io[i].n)) return io[i].f;
    if (!strcmp(name, "usleep")) return (void*)trap_usleep;
    if (!strcmp(name, "sleep")) return (void*)trap_sleep;
    if (!strcmp(name, "nanosleep")) return (void*)trap_nanosleep;
  }
  // RTLD_NEXT is resolved relative to the caller; we live in the same object
  // (the executable) as the code under test, so forwarding is equivalent.
  return real_dlsym(handle, name);
}

// ---------------------------------------------------------------------------
// virtual clock: timerfd -> eventfd, epoll_wait never blocks
int timerfd_create(int clockid, int flags) {
  (void)clockid;
  (void)flags;
  int fd = eventfd(0, EFD_NONBLOCK | EFD_CLOEXEC);
  vs.timer_fd = fd;
  return fd;
}
int timerfd_settime(int fd, int flags, const struct itimerspec* n, struct itimerspec* o) {
  (void)fd;
  (void)flags;
  (void)n;
  if (o) bset_(o, 0, sizeof *o);
  return 0;
}
int vs_timer_fd(void) { return vs.timer_fd; }
void vs_timer_tick(uint64_t n) {
  if (vs.timer_fd <= 0 || !n) return;
  uint64_t v = n;
  (void)!syscall(SYS_write, vs.timer_fd, &v, 8);
  vs.ticks_delivered += n;
  vs.G++;
}
uint64_t vs_ticks_delivered(void) { return vs.ticks_delivered; }
void vs_progress(void) { vs.G++; }
void vs_program_advanced(void) { vs.marker++; }
void vs_set_quiescence_cb(vs_quiescence_fn fn) { vs.qcb = fn; }

int epoll_wait(int epfd, struct epoll_event* ev, int maxev, int timeout) {
  vs_drain();  // kernel entry
  if (!ACTIVE) return (int)syscall(SYS_epoll_pwait, epfd, ev, maxev, timeout, 0, 8);
  if (vs.in_rt) return (int)syscall(SYS_epoll_pwait, epfd, ev, maxev, 0, 0, 8);
  tso_drain_self();
  vs.points++;
  vthread_t* t = vs.cur;
  // a poll with a time-out puts the kernel thread to sleep: the harness may check what it leaves behind
  if (timeout != 0 && vs_on_blocking_poll) vs_on_blocking_poll();
  int n = (int)syscall(SYS_epoll_pwait, epfd, ev, maxev, 0, 0, 8);
  if (n > 0) {
    vs.G++;
    vs.confirm_active = 0;
    t->idle_rounds = 0;
    t->last_G = vs.G;
    return n;
  }
  if (n < 0) return n;
  // a poll issued from anywhere else than a kernel thread's idle loop (e.g. from a yielding fiber) says
  // nothing about idleness
  if (vs_idle_context && !vs_idle_context()) return 0;
  if (t->last_G == vs.G) {
    t->idle_rounds++;
  } else {
    t->idle_rounds = 1;
    t->last_G = vs.G;
  }
  // Quiescence = a state in which every kernel thread, one after the other and
  // with all others parked in their idle poll, runs a complete iteration of its
  // idle loop (steal attempt, run-queue check, both polls) and finds nothing.
  if (vs.confirm_active && vs.G != vs.confirm_G) vs.confirm_active = 0;
  if (vs.confirm_active) {
    // only the confirmation runner executes while a confirmation is active
    t->confirm_polls++;
    if (t->confirm_polls < 3) return 0;
    t->confirmed = 1;
    vthread_t* next = 0;
    for (int i = 0; i < vs.nth; i++) {
      vthread_t* u = &vs.th[i];
      if (u->state == 1 && !u->confirmed) {
        next = u;
        break;
      }
    }
    if (next) {
      next->confirm_polls = 0;
      t->parked_idle = 1;
      switch_to(next);
      t->parked_idle = 0;
      return 0;
    }
    // everybody confirmed
    vs.confirm_active = 0;
    for (int i = 0; i < vs.nth; i++) vs.th[i].idle_rounds = 0;
    vs.G++;
    if (vs.qcb) vs.qcb();
    return 0;
  }
  int can_start = vs.qcb != 0 && t->idle_rounds >= 2;
  for (int i = 0; i < vs.nth && can_start; i++) {
    vthread_t* u = &vs.th[i];
    if (u == t || u->state == 3 || u->state == 0) continue;
    if (u->state != 1 || !u->parked_idle || u->idle_rounds < 2 || u->last_G != vs.G || u->sb_n) can_start = 0;
  }
  if (can_start) {
    vs.confirm_active = 1;
    vs.confirm_G = vs.G;
    for (int i = 0; i < vs.nth; i++) {
      vs.th[i].confirmed = 0;
      vs.th[i].confirm_polls = 0;
    }
    vs.next_event = vs.points + 64;
    return 0;  // this thread is the first runner
  }
  t->parked_idle = 1;
  forced_yield();
  t->parked_idle = 0;
  return 0;
}
int epoll_pwait(int epfd, struct epoll_event* ev, int maxev, int timeout, const sigset_t* ss) {
  (void)ss;
  return epoll_wait(epfd, ev, maxev, timeout);
}

// ---------------------------------------------------------------------------
// assert / abort / crash capture
void __assert_fail(const char* expr, const char* file, unsigned line, const char* func) {
  vs.in_rt++;
  const char* base = file;
  for (const char* p = file; *p; p++)
    if (*p == '/') base = p + 1;
  char kind[96];
  snprintf(kind, sizeof kind, "assert:%s:%u", base, line);
  if (ACTIVE || vs_res->status == 0) {
    if (ACTIVE) vs_violation(kind, "%s in %s (vthread %d, point %llu)", expr, func, vs.cur->id, (unsigned long long)vs.points);
  }
  fprintf(stderr, "assertion failed outside a run: %s:%u: %s: %s\n", file, line, func, expr);
  _exit(98);
}

static char altstack[65536];
static void crash_handler(int sig, siginfo_t* si, void* uc) {
  vs.in_rt++;
  void* rip = uc ? (void*)((ucontext_t*)uc)->uc_mcontext.gregs[REG_RIP] : 0;
  if (vs_res->status == 0) {
    snprintf(vs_res->kind, sizeof vs_res->kind, "crash:%s", sig == SIGSEGV ? "SIGSEGV" : sig == SIGBUS ? "SIGBUS" : sig == SIGILL ? "SIGILL" : sig == SIGFPE ? "SIGFPE" : "SIGABRT");
    snprintf(vs_res->detail, sizeof vs_res->detail, "fault address %p, pc %p, vthread %d, point %llu", si ? si->si_addr : 0, rip, vs.cur ? vs.cur->id : -1,
             (unsigned long long)vs.points);
    finalize_result(2);
  }
  _exit(10);
}
void vs_install_crash_handlers(void) {
  stack_t ss = {.ss_sp = altstack, .ss_size = sizeof altstack, .ss_flags = 0};
  sigaltstack(&ss, 0);
  struct sigaction sa;
  bset_(&sa, 0, sizeof sa);
  sa.sa_sigaction = crash_handler;
  sa.sa_flags = SA_SIGINFO | SA_ONSTACK | SA_NODEFER;
  sigaction(SIGSEGV, &sa, 0);
  sigaction(SIGBUS, &sa, 0);
  sigaction(SIGILL, &sa, 0);
  sigaction(SIGFPE, &sa, 0);
  sigaction(SIGABRT, &sa, 0);
  vs_ever_active = 1;
}
