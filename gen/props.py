"""Per-property generators (Hypothesis strategies built by construction from
terminating gadgets), budgets, non-triviality rules."""
from hypothesis import strategies as st


class Spec:
    def __init__(self, pid, binary, parts_fn, examples, rule, assumptions, technique, build="rt"):
        self.id = pid
        self.binary = binary
        self._parts = parts_fn
        self._examples = examples
        self.rule = rule
        self.assumptions = assumptions
        self.technique = technique
        self.build = build

    def parts(self, tier):
        return self._parts(tier)

    def examples(self, tier):
        return self._examples[tier]


def T(tier, quick, thorough):
    return quick if tier == "quick" else thorough


ints = st.integers


def op(name, a=0, b=0, c=0):
    return (name, a, b, c)


# --------------------------------------------------------------------------- C03
@st.composite
def mutex_case(draw, tier):
    threads = draw(ints(1, T(tier, 3, 4)))
    nm = draw(ints(1, 2))
    nf = draw(ints(2, T(tier, 6, 10)))
    fibers = []
    for _ in range(nf):
        n = draw(ints(1, T(tier, 6, 14)))
        ops = []
        for _ in range(n):
            k = draw(st.sampled_from(["lock", "lock", "lock", "trylock", "yield", "work"]))
            if k in ("lock", "trylock"):
                ops.append(op(k, draw(ints(0, nm - 1)), draw(ints(0, 2)), draw(ints(0, 4))))
            elif k == "yield":
                ops.append(op("yield", draw(ints(1, 2))))
            else:
                ops.append(op("work", draw(ints(1, 6))))
        fibers.append(ops)
    classes = ["threads=%d" % threads]
    if any(o[0] == "trylock" for f in fibers for o in f):
        classes.append("has_trylock")
    return {"harness": "mutex", "threads": threads, "cfg": {"nmutex": nm}, "fibers": fibers, "classes": classes}


def c03_parts(tier):
    return [{"name": "mutex", "strategy": mutex_case(tier), "nsched": T(tier, 32, 192), "args": ["--tso", T(tier, 0, 1)]}]


SPECS = {}

SPECS["C03"] = Spec(
    "C03", "runner_rt", c03_parts, {"quick": 420, "thorough": 6000},
    rule=("Hypothesis generates fiber programs over 1-2 mutexes (lock/trylock sections whose bodies read-modify-write a plain cell and may "
          "yield, plus yield/work ops) on 1-3(4) virtual kernel threads; each program is executed under 32 (192) generated schedules "
          "(fair, random walk, PCT, targeted delay on the mutex words). An execution is non-trivial when at least one lock call was "
          "contended (the locker was suspended in the waiter queue and resumed by an unlock); distinct = distinct (program, decision list)."),
    assumptions=["x86-64, clang -O1 build of the current tree with asserts on", "interleavings at instrumented-access granularity (SC; TSO store buffers in a third of thorough schedules)"],
    technique="property-based testing: Hypothesis-generated fiber programs x generated schedules under an owned scheduler, occupancy/visibility ghost oracle, quiescence = deadlock proof")

NOT_APPLICABLE = {}
HOOK_COMMITS = ["0bef496"]
