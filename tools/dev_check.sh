#!/bin/bash
# development aid: apply a patch to the scratch worktree /tmp/dev_repo and run a check against it (build dir /verif/build_dev,
# outputs under /tmp/p/devout), then revert. /repo and /verif/build are not touched.
# usage: dev_check.sh <patch.diff> <property> [tier] [budget seconds]
[ -d /tmp/dev_repo ] || git -C /repo worktree add -q --detach /tmp/dev_repo HEAD  # scratch worktree; remove with: git -C /repo worktree remove --force /tmp/dev_repo
P=$1; PROP=$2; TIER=${3:-quick}; B=${4:-40}
git -C /tmp/dev_repo checkout -q -- . && git -C /tmp/dev_repo apply "$P" || exit 2
rm -rf /tmp/p/devout/replays/$PROP
VERIF_REPO=/tmp/dev_repo VERIF_BUILD=/verif/build_dev VERIF_OUT=/tmp/p/devout VERIF_BUDGET=$B VERIF_FUZZ_SECONDS=${FUZZ:-8} /verif/check $PROP $TIER 2>&1 | grep -E "^violation kind|^C[0-9]+ $TIER|VIOLATION|ERROR" | cut -c1-260 | head -8
git -C /tmp/dev_repo checkout -q -- .
