#!/bin/bash
# run the quick check of each seeded change's property against it; results in /tmp/seed/results/<id>.txt
mkdir -p /tmp/seed/results
for i in "$@"; do
  /verif/tools/try_seed.sh /tmp/seed/$i/out quick $i > /tmp/seed/results/$i.txt 2>&1
  tail -1 /tmp/seed/results/$i.txt
done
