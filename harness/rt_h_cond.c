// C05 condition variable and C04 join/tryjoin/detach harnesses
#include <string.h>

#include "fiber_cond.h"
#include "fiber_manager.h"
#include "fiber_semaphore.h"
#include "rt.h"

extern void rt_work(int idx, int n);
extern void rt_park(void** slot);
extern void rt_unpark(void** slot);
extern fiber_t* rt_fibers[];

// ------------------------------------------------------------------ cond
static fiber_mutex_t cm;
static fiber_cond_t cv;
static int cm_holder = -1;
static int wstate[MAX_FIBERS];  // 0 none, 1 wait begun, 2 definitely registered (switched out)
static long c_A, c_O, c_returns, c_wbegun, c_sbegun;
static long c_bdone_credit;
static int c_bcast_inflight;
static int c_unlocked_signals, c_signals_with_waiter, c_rewaits;
static void* ctl_slot;
static volatile int ctl_parked, ctl_done;
static int have_ctl;

GHOST static void gc_m_acq(int idx) {
  vs_rt_enter();
  if (cm_holder != -1) vs_violation("mutex_overlap", "cond: fiber %d holds the user mutex while fiber %d also does (wait returned without re-acquiring?)", idx, cm_holder);
  cm_holder = idx;
  vs_rt_exit();
}
GHOST static void gc_m_rel(int idx) {
  vs_rt_enter();
  if (cm_holder != idx) vs_violation("mutex_overlap", "cond: user mutex released by %d but held by %d", idx, cm_holder);
  cm_holder = -1;
  vs_rt_exit();
}
GHOST static void gc_refresh(void) {
  for (int i = 0; i < g_case.n_fibers; i++)
    if (wstate[i] == 1 && g_fiber_saved(i)) {
      wstate[i] = 2;
      c_A++;
    }
}
GHOST static void gc_wait_begin(int idx) {
  if (wstate[idx]) return;
  wstate[idx] = 1;
  c_wbegun++;
}
GHOST static void gc_wait_return(int idx) {
  vs_rt_enter();
  gc_refresh();
  if (wstate[idx] == 1) {
    // returned although never seen switched out: it was registered all the same
    c_A++;
  }
  wstate[idx] = 0;
  c_returns++;
  long credit = c_sbegun + c_bdone_credit + (c_bcast_inflight ? c_bcast_inflight * c_wbegun : 0);
  if (c_returns > credit)
    vs_violation("released_without_signal", "cond: %ld waits have returned but only %ld signals and broadcasts covering %ld waiters were issued", c_returns,
                 c_sbegun, c_bdone_credit);
  vs_rt_exit();
}
GHOST static void gc_signal_begin(int held) {
  vs_rt_enter();
  gc_refresh();
  c_sbegun++;
  if (!held) c_unlocked_signals++;
  if (c_A - c_O > 0) {
    c_O++;
    c_signals_with_waiter++;
  }
  vs_rt_exit();
}
GHOST static void gc_bcast_begin(void) {
  vs_rt_enter();
  gc_refresh();
  if (c_A > c_O) c_O = c_A;
  c_bcast_inflight++;
  vs_rt_exit();
}
GHOST static void gc_bcast_done(void) {
  c_bcast_inflight--;
  c_bdone_credit += c_wbegun;
}
static long crowd_waiting, crowd_total_c;
static volatile int c_flag[4];
GHOST static int gc_leftover(void) {
  int n = (int)crowd_waiting;
  for (int i = 0; i < g_case.n_fibers; i++) n += wstate[i] != 0;
  return n;
}
// anonymous crowd waiters: counted as begun waits (a broadcast covers them) and as returns; they never create obligations
GHOST static void gc_crowd_wait_begin(void) {
  c_wbegun++;
  crowd_waiting++;
}
GHOST static void gc_crowd_wait_return(void) {
  vs_rt_enter();
  crowd_waiting--;
  c_returns++;
  long credit = c_sbegun + c_bdone_credit + (c_bcast_inflight ? c_bcast_inflight * c_wbegun : 0);
  if (c_returns > credit)
    vs_violation("released_without_signal", "cond: %ld waits have returned but only %ld signals and broadcasts covering %ld waiters were issued", c_returns,
                 c_sbegun, c_bdone_credit);
  vs_rt_exit();
}
GHOST static void gc_quiescent_check(void) {
  vs_rt_enter();
  gc_refresh();
  if (c_returns < c_O)
    vs_violation("lost_signal", "cond: %ld signals/broadcast slots were issued while a registered waiter existed, but only %ld waits returned (%d still blocked)",
                 c_O, c_returns, gc_leftover());
  vs_rt_exit();
}

static void cond_setup(void) {
  if (!cfg_get("cond", 0)) return;
  RT_DIRTY(cm);
  RT_DIRTY(cv);
  fiber_mutex_init(&cm);
  fiber_cond_init(&cv);
  vs_watch(&cv, sizeof cv);
  vs_watch(&cm, sizeof cm);
  for (int i = 0; i < g_case.n_fibers; i++)
    for (int j = 0; j < g_case.n_ops[i]; j++)
      if (!strcmp(g_case.ops[i][j].name, "ctl")) have_ctl = 1;
}

static void* cond_crowd_body(void* p) {
  int id = (int)(intptr_t)p;
  fiber_mutex_lock(&cm);
  gc_m_acq(id);
  gc_crowd_wait_begin();
  gc_m_rel(id);
  fiber_cond_wait(&cv, &cm);
  gc_m_acq(id);
  gc_crowd_wait_return();
  gc_m_rel(id);
  fiber_mutex_unlock(&cm);
  return 0;
}
static int cond_do_op(int idx, op_t* op) {
  if (!strcmp(op->name, "ccrowd")) {
    // any number of waiters: a further (anonymous) fibers each wait once; whoever signals or broadcasts next meets them, the
    // controller's broadcast at quiescence releases the rest
    for (int i = 0; i < op->a; i++) {
      fiber_t* f = fiber_create(8192, &cond_crowd_body, (void*)(intptr_t)(1000 + crowd_total_c + i));
      if (!f) vs_violation("engine_limit", "fiber_create failed");
      fiber_detach(f);
    }
    crowd_total_c += op->a;
    return 1;
  }
  if (!strcmp(op->name, "cwait")) {
    for (int r = 0; r < (op->a > 0 ? op->a : 1); r++) {
      fiber_mutex_lock(&cm);
      gc_m_acq(idx);
      // (b: the waiter does something that lets other fibers run while it holds the mutex - others may queue up on it)
      for (int y = 0; y < op->b; y++) fiber_yield();
      gc_wait_begin(idx);
      gc_m_rel(idx);
      fiber_cond_wait(&cv, &cm);
      gc_m_acq(idx);
      gc_wait_return(idx);
      if (r) c_rewaits++;
      gc_m_rel(idx);
      fiber_mutex_unlock(&cm);
    }
    return 1;
  }
  if (!strcmp(op->name, "csetflag")) {
    c_flag[op->a & 3] = 1;
    return 1;
  }
  if (!strcmp(op->name, "cpollflag")) {
    // polls with fiber_yield, never blocks: whatever it waits for must not depend on this fiber getting out of the way
    long n = 0;
    while (!c_flag[op->a & 3]) {
      fiber_yield();
      if (++n > 3000000 && !vs_long_stall_run()) vs_violation("livelock", "fiber %d polled 3000000 times for a flag that a mutex holder sets after releasing the mutex", idx);
    }
    return 1;
  }
  if (!strcmp(op->name, "ctrylock")) {
    // a fiber that polls the condition's mutex with trylock (a times, yielding in between); a success is a short critical section
    for (int i = 0; i < (op->a > 0 ? op->a : 1); i++) {
      g_nb_enter(idx);
      int r = fiber_mutex_trylock(&cm);
      g_nb_exit(idx);
      if (r == FIBER_SUCCESS) {
        gc_m_acq(idx);
        if (op->b) rt_work(idx, op->b);
        gc_m_rel(idx);
        fiber_mutex_unlock(&cm);
      }
      fiber_yield();
    }
    return 1;
  }
  if (!strcmp(op->name, "csignal") || !strcmp(op->name, "cbcast")) {
    int held = op->a;
    int bc = op->name[1] == 'b';
    if (held) {
      fiber_mutex_lock(&cm);
      gc_m_acq(idx);
    }
    if (bc) {
      gc_bcast_begin();
      fiber_cond_broadcast(&cv);
      gc_bcast_done();
    } else {
      gc_signal_begin(held);
      fiber_cond_signal(&cv);
    }
    if (held) {
      gc_m_rel(idx);
      fiber_mutex_unlock(&cm);
    }
    return 1;
  }
  if (!strcmp(op->name, "ctl")) {
    for (;;) {
      ctl_parked = 1;
      rt_park(&ctl_slot);
      ctl_parked = 0;
      gc_quiescent_check();
      if (!gc_leftover()) break;
      fiber_mutex_lock(&cm);
      gc_m_acq(idx);
      gc_bcast_begin();
      fiber_cond_broadcast(&cv);
      gc_bcast_done();
      gc_m_rel(idx);
      fiber_mutex_unlock(&cm);
    }
    ctl_done = 1;
    return 1;
  }
  return 0;
}

static int cond_at_quiescence(void) {
  if (have_ctl && ctl_parked && !ctl_done) {
    rt_unpark(&ctl_slot);
    return 1;
  }
  return 0;
}

GHOST static void cond_final(void) {
  vs_rt_enter();
  if (cfg_get("cond", 0)) {
    vs_label_max("crowd", (uint64_t)crowd_total_c);
    gc_quiescent_check();
    vs_label_add("cond_waits", c_wbegun);
    vs_label_add("cond_signals_with_waiter", c_signals_with_waiter);
    vs_label_add("cond_unlocked_signals", c_unlocked_signals);
    vs_label_add("cond_rewaits", c_rewaits);
    if (c_signals_with_waiter > 0 || c_O > 0) rt_nontrivial("cond");
  }
  vs_rt_exit();
}
const harness_t h_cond = {"cond", cond_setup, cond_do_op, cond_at_quiescence, cond_final, 0};

// ------------------------------------------------------------------ join
static fiber_semaphore_t gate[MAX_FIBERS];
static int gated[MAX_FIBERS];
static int j_success[MAX_FIBERS], j_detached[MAX_FIBERS], j_detach_begun[MAX_FIBERS];
static int j_in_join[MAX_FIBERS];  // fiber idx is inside fiber_join on target (value = target+1)
static int j_overlap, j_joiner_first, j_target_first, j_try_fail;

#define TOKEN(i) rt_token(i)

GHOST static void gj_result(int idx, int target, int r, void* res, int via_try, int mode) {
  vs_rt_enter();
  if (r == FIBER_SUCCESS) {
    if (!g_is_done(target))
      vs_violation("join_before_return", "fiber %d: %s of target %d succeeded before the target's function returned (result %p)%s", idx,
                   via_try ? "tryjoin" : "join", target, res, j_detach_begun[target] ? " [a concurrent fiber_detach woke the joiner]" : "");
    if (res != TOKEN(target)) vs_violation("join_wrong_value", "fiber %d joined target %d and got %p, expected %p", idx, target, res, TOKEN(target));
    if (j_detached[target]) vs_violation("double_join", "join of target %d succeeded after it was detached", target);
    if (++j_success[target] > 1) vs_violation("double_join", "target %d was joined successfully twice", target);
  } else {
    if (mode == 0) vs_violation("join_wrong_value", "fiber %d: sole %s of target %d failed", idx, via_try ? "tryjoin" : "join", target);
  }
  vs_rt_exit();
}
GHOST static void gj_note_order(int target, int idx_blocked) {
  // called after a blocking join returned: did the joiner actually sleep?
  if (idx_blocked) j_joiner_first++; else j_target_first++;
}

extern fiber_t* rt_fibers[];
static void join_setup(void) {
  // the join/detach hand-shake words of every target are the watched object (targeted delay / stall strategies)
  for (int i = 0; i < g_case.n_fibers; i++)
    if (g_case.n_ops[i] > 0 && !strcmp(g_case.ops[i][0].name, "target") && rt_fibers[i]) vs_watch((void*)&rt_fibers[i]->result, 32);
  // class "contenders on a finished target": the loser keeps using a handle the winner's join has already let the
  // library reclaim (the caller's own risk) - tolerate those accesses, the memory is never reused inside an execution
  if (cfg_get("allow_freed", 0)) vs_heap_allow_freed(1);
  for (int i = 0; i < g_case.n_fibers; i++)
    if (g_case.n_ops[i] > 0 && !strcmp(g_case.ops[i][0].name, "target") && g_case.ops[i][0].a >= 0) {
      gated[i] = 1;
      fiber_semaphore_init(&gate[i], 0);
    }
}

static void open_gate(int t) {
  if (gated[t]) fiber_semaphore_post(&gate[t]);
}

static int join_do_op(int idx, op_t* op) {
  int t = op->a;
  if (!strcmp(op->name, "target")) {
    // gated target: held until the harness opens the gate
    if (op->a >= 0) fiber_semaphore_wait(&gate[idx]);
    return 1;
  }
  if (t < 0 || t >= g_case.n_fibers) return 0;
  fiber_t* f = rt_fibers[t];
  if (!strcmp(op->name, "join")) {
    // b: 0 sole joiner (must succeed), 1 contender (may fail; opens the gate when it lost), 2 may be woken by detach
    void* res = (void*)0x55;
    // both forms of the call: with a place for the result and without (about one joiner in three passes NULL)
    int no_result = (op->c & 1) ? 1 : (op->c & 2) ? 0 : (idx * 7 + t) % 3 == 0;
    int before = g_fiber_switches(idx);
    j_in_join[idx] = t + 1;
    int r = fiber_join(f, no_result ? 0 : &res);
    j_in_join[idx] = 0;
    gj_note_order(t, g_fiber_switches(idx) != before);
    if (no_result && r == FIBER_SUCCESS) res = TOKEN(t);
    gj_result(idx, t, r, res, 0, op->b);
    if (r != FIBER_SUCCESS && op->b == 1) open_gate(t);
    return 1;
  }
  if (!strcmp(op->name, "tryjoin")) {
    // b: 0 loop until success, 1 single attempt as contender (opens gate if it lost)
    for (;;) {
      void* res = (void*)0x55;
      int no_result = (idx * 5 + t) % 3 == 0;
      int r = fiber_tryjoin(f, no_result ? 0 : &res);
      if (no_result && r == FIBER_SUCCESS) res = TOKEN(t);
      if (r == FIBER_SUCCESS) {
        gj_result(idx, t, r, res, 1, op->b);
        break;
      }
      j_try_fail++;
      if (op->b == 1) {
        open_gate(t);
        break;
      }
      if (op->b == 3 && (j_success[t] || j_detached[t])) break;  // contender on an ungated target: somebody else won
      for (int i = 0; i <= op->c; i++) fiber_yield();
    }
    return 1;
  }
  if (!strcmp(op->name, "detach")) {
    j_detach_begun[t] = 1;
    int r = fiber_detach(f);
    if (r == FIBER_SUCCESS) j_detached[t] = 1;
    return 1;
  }
  if (!strcmp(op->name, "detachjoin")) {
    // target is gated, hence still alive: joining a detached fiber must fail
    j_detach_begun[t] = 1;
    fiber_detach(f);
    j_detached[t] = 1;
    void* res = 0;
    int r = fiber_join(f, &res);
    if (r != FIBER_ERROR) vs_violation("double_join", "fiber_join on detached target %d returned success", t);
    r = fiber_tryjoin(f, &res);
    if (r != FIBER_ERROR) vs_violation("double_join", "fiber_tryjoin on detached target %d returned success", t);
    open_gate(t);
    return 1;
  }
  if (!strcmp(op->name, "detachblocked")) {
    // labelled class: detach while fiber b is blocked in fiber_join on the (gated) target
    int joiner = op->b;
    while (!(j_in_join[joiner] == t + 1 && g_fiber_saved(joiner))) fiber_yield();
    j_detach_begun[t] = 1;
    fiber_detach(f);
    j_detached[t] = 1;
    open_gate(t);
    return 1;
  }
  return 0;
}

GHOST static void join_final(void) {
  vs_rt_enter();
  int targets = 0;
  for (int i = 0; i < g_case.n_fibers; i++) {
    if (!(g_case.n_ops[i] > 0 && !strcmp(g_case.ops[i][0].name, "target"))) continue;
    targets++;
    if (g_is_done(i) && (j_success[i] || j_detached[i]) && !g_fiber_destroyed(i))
      vs_violation("reclaim_count", "target %d finished and was %s but its memory was never reclaimed", i, j_success[i] ? "joined" : "detached");
  }
  if (targets) {
    vs_label_add("join_joiner_first", j_joiner_first);
    vs_label_add("join_target_first", j_target_first);
    vs_label_add("tryjoin_fail", j_try_fail);
    if (j_joiner_first + j_target_first + j_try_fail > 0) rt_nontrivial("join");
  }
  vs_rt_exit();
}
const harness_t h_join = {"join", join_setup, join_do_op, 0, join_final, 0};
