// Thread-level harnesses (no fiber runtime): C02(a) deque, C13 MPMC FIFO,
// C15 MPSC/SPSC/relaxed MPSC, C16 ring buffer, C17 work queue, C20(a) LIFO /
// dist FIFO / flushable stack.  One "fiber" line of the case = one virtual thread.
#include <stdlib.h>
#include <string.h>

#include "dist_fifo.h"
#include "hazard_pointer.h"
#include "lin.h"
#include "lockfree_ring_buffer.h"
#include "mpmc_fifo.h"
#include "mpmc_lifo.h"
#include "mpmc_stack.h"
#include "mpsc_fifo.h"
#include "mpsc_relaxed_fifo.h"
#include "rt.h"

// every piece of per-execution state lives in one section so that the in-process (libFuzzer) front end can reset it
#define DSVAR __attribute__((section("ds_state")))
#include "spsc_fifo.h"
#include "work_queue.h"
#include "work_stealing_deque.h"

#define MAXV 8192
// what the structures store is a pointer-sized item; cfg item_shape picks how the small value ids are turned into one:
// 0: the id itself, 1: id << 32 (low 32 bits all zero), 2: id << 48, 3: id with bit 63 set, 4: id * 4096 (page-aligned)
static DSVAR int ds_shape;
static inline void* ENCV(long v) {
  switch (ds_shape) {
    case 1: return (void*)((uintptr_t)v << 32);
    case 2: return (void*)((uintptr_t)v << 48);
    case 3: return (void*)((uintptr_t)v | (1ull << 63));
    case 4: return (void*)((uintptr_t)v << 12);
    default: return (void*)v;
  }
}
static inline long DECV(const void* p) {
  switch (ds_shape) {
    case 1: return (long)((uintptr_t)p >> 32);
    case 2: return (long)((uintptr_t)p >> 48);
    case 3: return (long)((uintptr_t)p & ~(1ull << 63));
    case 4: return (long)((uintptr_t)p >> 12);
    default: return (long)p;
  }
}
static DSVAR volatile long ds_work_cell[MAX_FIBERS];
static void ds_work(int t, int n) {
  for (int i = 0; i < n; i++) ds_work_cell[t] += i;
}

// ---- ghost bookkeeping shared by the queue-like harnesses -------------------
static DSVAR uint8_t v_pushed[MAXV], v_taken[MAXV];
static DSVAR uint64_t v_push_inv[MAXV], v_push_resp[MAXV], v_take_inv[MAXV], v_take_resp[MAXV];
static DSVAR int v_pusher[MAXV], v_taker[MAXV];
static DSVAR long next_val = 1;
static DSVAR uint64_t gclock;
static DSVAR long n_taken, n_pushed, n_empty, n_overlap_ops;
static DSVAR int inflight_takes;
static DSVAR int ops_in_flight;

GHOST static long gv_new(int t) {
  vs_rt_enter();
  long v = next_val++;
  if (v >= MAXV) vs_violation("engine_limit", "too many values");
  v_pusher[v] = t;
  v_push_inv[v] = ++gclock;
  if (ops_in_flight) n_overlap_ops++;
  ops_in_flight++;
  vs_rt_exit();
  return v;
}
GHOST static void gv_set_pusher(long v, int id) { v_pusher[v] = id; }
GHOST static void gv_pushed(long v) {
  vs_drain();  // response = effects globally visible (TSO mode: operation boundaries are fences)
  v_pushed[v] = 1;
  v_push_resp[v] = ++gclock;
  n_pushed++;
  ops_in_flight--;
}
GHOST static void gv_push_failed(long v) {
  vs_drain();  // response = effects globally visible (TSO mode: operation boundaries are fences)
  v_pushed[v] = 0;
  v_push_inv[v] = 0;
  ops_in_flight--;
}
GHOST static uint64_t gv_take_begin(void) {
  inflight_takes++;
  if (ops_in_flight) n_overlap_ops++;
  ops_in_flight++;
  return ++gclock;
}
// EMPTY was reported by an operation invoked at 'inv': legal only if no push that completed before 'inv'
// is still pending, or a push / another take overlaps the call (the relaxation the properties grant)
GHOST static void gv_empty_check(const char* what, int t, uint64_t inv) {
  vs_rt_enter();
  long pending = 0;
  int overlap = inflight_takes > 1;
  for (long v = 1; v < next_val; v++) {
    if (!v_push_inv[v]) continue;
    if (v_pushed[v] && v_push_resp[v] < inv && !v_taken[v]) pending = v;
    if (!v_pushed[v] || v_push_resp[v] > inv) overlap = 1;  // push still in flight, or completed during the call
  }
  if (pending && !overlap)
    vs_violation("empty_illegal", "%s: thread %d was told the queue is empty although value %ld (push completed before the call) has not been taken and nothing overlaps the call",
                 what, t, pending);
  vs_rt_exit();
}
GHOST static void gv_take_end_empty(void) {
  vs_drain();  // response = effects globally visible (TSO mode: operation boundaries are fences)
  inflight_takes--;
  ops_in_flight--;
  n_empty++;
  ++gclock;
}
GHOST static void gv_taken(int t, long v, uint64_t inv, const char* what) {
  vs_drain();
  vs_rt_enter();
  inflight_takes--;
  ops_in_flight--;
  uint64_t now = ++gclock;
  if (v <= 0 || v >= next_val || !v_push_inv[v])
    vs_violation("value_invented", "%s: thread %d obtained value %ld which was never pushed", what, t, v);
  if (v_taken[v]) vs_violation("value_duplicated", "%s: value %ld handed out twice (thread %d and thread %d)", what, v, v_taker[v], t);
  v_taken[v] = 1;
  v_taker[v] = t;
  v_take_inv[v] = inv;
  v_take_resp[v] = now;
  n_taken++;
  vs_rt_exit();
}
GHOST static void gv_final_conservation(const char* what) {
  vs_rt_enter();
  for (long v = 1; v < next_val; v++)
    if (v_pushed[v] && !v_taken[v]) vs_violation("value_lost", "%s: value %ld (pushed by thread %d) was never handed out, even by the final drain", what, v, v_pusher[v]);
  vs_rt_exit();
}
// FIFO real-time order: push(a) completed before push(b) began  =>  not (take(b) completed before take(a) began)
GHOST static void gv_fifo_realtime(const char* what, int per_producer_only) {
  vs_rt_enter();
  for (long a = 1; a < next_val; a++) {
    if (!v_taken[a]) continue;
    for (long b = a + 1; b < next_val; b++) {
      if (!v_taken[b]) continue;
      long x = a, y = b;
      for (int k = 0; k < 2; k++) {
        int ordered = per_producer_only ? (v_pusher[x] == v_pusher[y] && v_push_inv[x] < v_push_inv[y]) : (v_push_resp[x] && v_push_resp[x] < v_push_inv[y]);
        if (ordered && v_take_resp[y] < v_take_inv[x])
          vs_violation("order_violated", "%s: value %ld was pushed (by %d) entirely before value %ld (by %d), yet %ld was taken entirely before %ld", what, x,
                       v_pusher[x], y, v_pusher[y], y, x);
        x = b;
        y = a;
      }
    }
  }
  vs_rt_exit();
}
// LIFO sanity used when the history is too long for the checker: nothing
GHOST static void g_add(long* c, long v) { *c += v; }

static void lin_verdict(const char* what, int model, int cap, int excuse) {
  vs_rt_enter();
  int n = lin_count();
  vs_label_max("history_len", (uint64_t)n);
  if (n <= 40) {
    int r = lin_check(model, cap, excuse);
    if (r == 0) {
      static char buf[3000];
      lin_describe(buf, sizeof buf);
      vs_violation("not_linearizable", "%s: no linearisation of the %d-operation history matches the sequential model: %.300s", what, n, buf);
    }
    vs_label_add(r == 1 ? "lin_checked" : "lin_gave_up", 1);
  } else {
    vs_label_add("lin_too_long", 1);
  }
  vs_rt_exit();
}

// in-process front end: forget everything about the previous execution
extern char __start_ds_state[], __stop_ds_state[];
extern void hz_reset(void);
void ds_reset(void) {
  memset(__start_ds_state, 0, (size_t)(__stop_ds_state - __start_ds_state));
  next_val = 1;
  hz_reset();
  lin_reset();
}

// ---- thread plumbing --------------------------------------------------------
typedef struct ds_harness {
  void (*setup)(void);
  void (*thread_begin)(int t);
  int (*do_op)(int t, op_t* op);
  void (*final)(void);
} ds_harness_t;
static const ds_harness_t* DS;

static void* ds_thread(void* p) {
  int t = (int)(intptr_t)p;
  if (DS->thread_begin) DS->thread_begin(t);
  for (int k = 0; k < g_case.n_ops[t]; k++) {
    op_t* op = &g_case.ops[t][k];
    vs_program_advanced();
    if (!strcmp(op->name, "work")) ds_work(t, op->a);
    else if (!strcmp(op->name, "nop")) {
    } else if (!DS->do_op(t, op)) vs_violation("engine_limit", "unknown ds op %s", op->name);
  }
  return 0;
}

static void ds_run(const ds_harness_t* h) {
  DS = h;
  lin_reset();
  ds_shape = (int)cfg_get("item_shape", 0);
  h->setup();
  int tids[MAX_FIBERS];
  for (int i = 0; i < g_case.n_fibers; i++) tids[i] = vs_thread_create(ds_thread, (void*)(intptr_t)i);
  for (int i = 0; i < g_case.n_fibers; i++) vs_thread_join(tids[i]);
  h->final();
}

// =============================================================== C02(a) deque
static DSVAR wsd_work_stealing_deque_t* dq;
static DSVAR long dq_steal_ok, dq_steal_abort, dq_pop_abort, dq_grow;
static DSVAR long dq_pushed_by_owner, dq_taken_completed;

GHOST static void gdq_pop_empty(void) {
  vs_rt_enter();
  // every value pushed so far must have been taken by an operation that has begun
  if (n_pushed - n_taken > inflight_takes - 1)
    vs_violation("empty_illegal", "deque: pop_bottom reported EMPTY while %ld pushed values are not taken and only %d steals are in flight", n_pushed - n_taken,
                 inflight_takes - 1);
  vs_rt_exit();
}
static void deque_setup(void) {
  dq = wsd_work_stealing_deque_create();
  vs_watch(dq, sizeof *dq);
}
static int deque_do_op(int t, op_t* op) {
  if (!strcmp(op->name, "push")) {
    for (int i = 0; i < op->a; i++) {
      long v = gv_new(t);
      size_t before = wsd_circular_array_size(dq->underlying_array);
      wsd_work_stealing_deque_push_bottom(dq, ENCV(v));
      if (wsd_circular_array_size(dq->underlying_array) != before) g_add(&dq_grow, 1);
      gv_pushed(v);
    }
    return 1;
  }
  if (!strcmp(op->name, "pop")) {
    for (int i = 0; i < op->a; i++) {
      uint64_t inv = gv_take_begin();
      void* r = wsd_work_stealing_deque_pop_bottom(dq);
      if (r == WSD_EMPTY) {
        gdq_pop_empty();
        gv_take_end_empty();
      } else if (r == WSD_ABORT) {
        g_add(&dq_pop_abort, 1);
        gv_take_end_empty();
      } else {
        gv_taken(t, DECV(r), inv, "deque pop_bottom");
      }
    }
    return 1;
  }
  if (!strcmp(op->name, "steal")) {
    for (int i = 0; i < op->a; i++) {
      uint64_t inv = gv_take_begin();
      void* r = wsd_work_stealing_deque_steal(dq);
      if (r == WSD_EMPTY) {
        gv_take_end_empty();
      } else if (r == WSD_ABORT) {
        g_add(&dq_steal_abort, 1);
        gv_take_end_empty();
      } else {
        g_add(&dq_steal_ok, 1);
        gv_taken(t, DECV(r), inv, "deque steal");
      }
      if (op->b) ds_work(t, op->b);
    }
    return 1;
  }
  return 0;
}
static void deque_final(void) {
  // final owner drain
  for (;;) {
    uint64_t inv = gv_take_begin();
    void* r = wsd_work_stealing_deque_pop_bottom(dq);
    if (r == WSD_EMPTY) {
      gdq_pop_empty();
      gv_take_end_empty();
      break;
    }
    if (r == WSD_ABORT) {
      gv_take_end_empty();
      continue;
    }
    gv_taken(0, DECV(r), inv, "deque final drain");
  }
  gv_final_conservation("deque");
  vs_label_add("deque_steal_ok", (uint64_t)dq_steal_ok);
  vs_label_add("deque_steal_abort", (uint64_t)dq_steal_abort);
  vs_label_add("deque_pop_abort", (uint64_t)dq_pop_abort);
  vs_label_add("deque_grow", (uint64_t)dq_grow);
  if (dq_steal_ok > 0 && (dq_steal_abort + dq_pop_abort > 0 || dq_grow > 0)) rt_nontrivial("deque");
}
static const ds_harness_t ds_deque = {deque_setup, 0, deque_do_op, deque_final};
static void deque_entry(void* a) {
  (void)a;
  ds_run(&ds_deque);
}
const harness_t h_deque = {"deque", 0, 0, 0, 0, 0, deque_entry};

// =============================================================== C13 MPMC FIFO
static DSVAR mpmc_fifo_t mf;
static _Atomic(hazard_pointer_thread_record_t*) mf_head;
static DSVAR hazard_pointer_thread_record_t* mf_rec[MAX_FIBERS + 1];
static DSVAR mpmc_fifo_node_t* mf_free[MAX_FIBERS + 1];
static DSVAR int mf_recycle, mf_far;
static DSVAR long mf_recycled, mf_reused, mf_gc;

static void mf_gc_fn(void* gc_data, hazard_node_t* node) {
  (void)gc_data;
  mpmc_fifo_node_t* n = (mpmc_fifo_node_t*)node;
  g_add(&mf_gc, 1);
  if (mf_recycle) {
    int t = vs_self();
    n->next = mf_free[t % (MAX_FIBERS + 1)];
    mf_free[t % (MAX_FIBERS + 1)] = n;
    g_add(&mf_recycled, 1);
  } else {
    free(n);
  }
}
static mpmc_fifo_node_t* mf_node(int slot) {
  mpmc_fifo_node_t* n = mf_free[slot];
  if (n) {
    mf_free[slot] = n->next;
    g_add(&mf_reused, 1);
  } else {
    // "far" cases take every other node from the arena region 0x90000000 bytes higher (brk heap vs mmap arenas)
    static int flip;
    n = (mf_far && (flip++ & 1)) ? vs_alloc_far(sizeof *n) : malloc(sizeof *n);
  }
  n->hazard.gc_data = 0;
  n->hazard.gc_function = mf_gc_fn;
  return n;
}
static hazard_pointer_thread_record_t* mf_record(int slot) {
  if (!mf_rec[slot]) mf_rec[slot] = hazard_pointer_thread_record_create_and_push(&mf_head, MPMC_HAZARD_COUNT);
  return mf_rec[slot];
}
static void mpmc_setup(void) {
  mf_recycle = (int)cfg_get("recycle", 1);
  mf_far = (int)cfg_get("far", 0);

  mf_head = NULL;
  mpmc_fifo_node_t* init = malloc(sizeof *init);
  init->hazard.gc_data = 0;
  init->hazard.gc_function = mf_gc_fn;
  RT_DIRTY(mf);
  mpmc_fifo_init(&mf, init);
  vs_watch(&mf, sizeof mf);
  // records registered up-front unless the case asks for lazy registration
  if (!cfg_get("lazy_records", 0))
    for (int i = 0; i <= g_case.n_fibers; i++) mf_record(i);
}
static int mpmc_slot(int t) { return vs_self() % (MAX_FIBERS + 1); (void)t; }
static int mpmc_do_op(int t, op_t* op) {
  int slot = mpmc_slot(t);
  if (!strcmp(op->name, "push")) {
    for (int i = 0; i < op->a; i++) {
      long v = gv_new(t);
      int id = lin_begin(t, OP_PUSH, v);
      mpmc_fifo_node_t* n = mf_node(slot);
      n->value = ENCV(v);
      mpmc_fifo_push(mf_record(slot), &mf, n);
      lin_end(id, OP_PUSH, 0);
      gv_pushed(v);
    }
    return 1;
  }
  if (!strcmp(op->name, "pop")) {
    for (int i = 0; i < op->a; i++) {
      uint64_t inv = gv_take_begin();
      int id = lin_begin(t, OP_POP, 0);
      void* r = mpmc_fifo_trypop(mf_record(slot), &mf);
      if (r) {
        lin_end(id, OP_POP, DECV(r));
        gv_taken(t, DECV(r), inv, "mpmc_fifo_trypop");
      } else {
        lin_end(id, OP_POP_EMPTY, 0);
        gv_empty_check("mpmc_fifo_trypop", t, inv);
        gv_take_end_empty();
      }
      if (op->b) ds_work(t, op->b);
    }
    return 1;
  }
  return 0;
}
static void mpmc_final(void) {
  int slot = mpmc_slot(0);
  for (;;) {
    uint64_t inv = gv_take_begin();
    int id = lin_begin(99, OP_POP, 0);
    void* r = mpmc_fifo_trypop(mf_record(slot), &mf);
    if (!r) {
      lin_end(id, OP_POP_EMPTY, 0);
      gv_take_end_empty();
      break;
    }
    lin_end(id, OP_POP, DECV(r));
    gv_taken(99, DECV(r), inv, "mpmc_fifo final drain");
  }
  gv_final_conservation("mpmc_fifo");
  gv_fifo_realtime("mpmc_fifo", 0);
  lin_verdict("mpmc_fifo", MODEL_FIFO, 0, EXCUSE_PUSH_OVERLAP);
  vs_label_add("mpmc_nodes_reclaimed", (uint64_t)mf_gc);
  vs_label_add("mpmc_nodes_reused", (uint64_t)mf_reused);
  vs_label_add("overlapping_ops", (uint64_t)n_overlap_ops);
  if (n_overlap_ops >= 2 && n_taken > 0) rt_nontrivial("mpmc");
}
static const ds_harness_t ds_mpmc = {mpmc_setup, 0, mpmc_do_op, mpmc_final};
static void mpmc_entry(void* a) {
  (void)a;
  ds_run(&ds_mpmc);
}
const harness_t h_mpmc = {"mpmc", 0, 0, 0, 0, 0, mpmc_entry};

// =============================================================== C15 MPSC / SPSC / relaxed MPSC
enum { Q_MPSC = 0, Q_SPSC = 1, Q_MPSCR = 2 };
static DSVAR int q_kind;
static DSVAR mpsc_fifo_t q_mpsc;
static DSVAR spsc_fifo_t q_spsc;
static DSVAR mpscr_fifo_t* q_mpscr;
static DSVAR long q_peeks;

static void q_setup(void) {
  q_kind = (int)cfg_get("qkind", 0);
  if (q_kind == Q_MPSC) {
    RT_DIRTY(q_mpsc);
    mpsc_fifo_init(&q_mpsc);
    vs_watch(&q_mpsc, sizeof q_mpsc);
  } else if (q_kind == Q_SPSC) {
    RT_DIRTY(q_spsc);
    spsc_fifo_init(&q_spsc);
    vs_watch(&q_spsc, sizeof q_spsc);
  } else {
    q_mpscr = mpscr_fifo_create((size_t)cfg_get("lanes", 1));
    // lifetime position: the state of an empty queue after that many lane probes by trypop (the round-robin counter)
    q_mpscr->counter += (size_t)cfg_get("counter_base", 0);
  }
}
static void q_push_val(int t, long v, void* reuse_node, int lane) {
  (void)t;
  if (q_kind == Q_MPSC) {
    mpsc_fifo_node_t* n = reuse_node ? reuse_node : malloc(sizeof *n);
    n->data = (void*)v;
    mpsc_fifo_push(&q_mpsc, n);
  } else {
    spsc_node_t* n = reuse_node ? reuse_node : malloc(sizeof *n);
    n->data = (void*)v;
    if (q_kind == Q_SPSC) spsc_fifo_push(&q_spsc, n);
    else mpscr_fifo_push(q_mpscr, (size_t)lane, n);
  }
}
static void* q_pop_node(long* out) {
  if (q_kind == Q_MPSC) {
    mpsc_fifo_node_t* n = mpsc_fifo_trypop(&q_mpsc);
    if (n) *out = (long)n->data;
    return n;
  }
  spsc_node_t* n = q_kind == Q_SPSC ? spsc_fifo_trypop(&q_spsc) : mpscr_fifo_trypop(q_mpscr);
  if (n) *out = (long)n->data;
  return n;
}
static int q_do_op(int t, op_t* op) {
  if (!strcmp(op->name, "push")) {
    for (int i = 0; i < op->a; i++) {
      long v = gv_new(t);
      if (q_kind == Q_MPSCR) gv_set_pusher(v, 100 + op->c);  // relaxed queue: "one producer" = one lane; a thread may own several lanes
      int id = lin_begin(t, OP_PUSH, v);
      q_push_val(t, v, 0, op->c);
      lin_end(id, OP_PUSH, 0);
      gv_pushed(v);
      if (op->b) ds_work(t, op->b);
    }
    return 1;
  }
  if (!strcmp(op->name, "pop") || !strcmp(op->name, "poppush")) {
    // poppush: the consumer re-pushes a fresh value on the node it just got (immediate reuse of the previous stub)
    int re = op->name[3] == 'p';
    for (int i = 0; i < op->a; i++) {
      uint64_t inv = gv_take_begin();
      int id = lin_begin(t, OP_POP, 0);
      long val = 0;
      void* n = q_pop_node(&val);
      if (n) {
        lin_end(id, OP_POP, val);
        gv_taken(t, val, inv, "queue trypop");
        if (re && q_kind == Q_MPSC) {
          long v = gv_new(t);
          int id2 = lin_begin(t, OP_PUSH, v);
          q_push_val(t, v, n, 0);
          lin_end(id2, OP_PUSH, 0);
          gv_pushed(v);
        } else {
          free(n);
        }
      } else {
        lin_end(id, OP_POP_EMPTY, 0);
        gv_empty_check("queue trypop", t, inv);
        gv_take_end_empty();
      }
      if (op->b) ds_work(t, op->b);
    }
    return 1;
  }
  if (!strcmp(op->name, "peek") && q_kind == Q_MPSC) {
    void* d = 0;
    int r = mpsc_fifo_peek(&q_mpsc, &d);
    if (r) {
      long v = (long)d;
      // a peeked value must be a pushed, not yet taken value
      if (v <= 0 || v >= next_val || !v_push_inv[v] || v_taken[v]) vs_violation("value_invented", "mpsc peek returned %ld which is not a pending pushed value", v);
    }
    g_add(&q_peeks, 1);
    return 1;
  }
  return 0;
}
GHOST static void gq_empty_check(const char* what) {
  // called by the single consumer at the final drain: nothing may be pending after EMPTY
  (void)what;
}
static void q_final(void) {
  for (;;) {
    uint64_t inv = gv_take_begin();
    int id = lin_begin(99, OP_POP, 0);
    long val = 0;
    void* n = q_pop_node(&val);
    if (!n) {
      lin_end(id, OP_POP_EMPTY, 0);
      gv_take_end_empty();
      break;
    }
    lin_end(id, OP_POP, val);
    gv_taken(99, val, inv, "queue final drain");
  }
  gq_empty_check("queue");
  gv_final_conservation("queue");
  gv_fifo_realtime("queue", q_kind == Q_MPSCR);
  if (q_kind != Q_MPSCR) {
    gv_fifo_realtime("queue", 1);
    lin_verdict(q_kind == Q_MPSC ? "mpsc_fifo" : "spsc_fifo", MODEL_FIFO, 0, EXCUSE_PUSH_OVERLAP);
  }
  vs_label_add("overlapping_ops", (uint64_t)n_overlap_ops);
  if (n_overlap_ops >= 1 && n_taken > 0) rt_nontrivial("queue");
}
static const ds_harness_t ds_queue = {q_setup, 0, q_do_op, q_final};
static void q_entry(void* a) {
  (void)a;
  ds_run(&ds_queue);
}
const harness_t h_queue = {"queue", 0, 0, 0, 0, 0, q_entry};

// =============================================================== C16 ring buffer
static DSVAR lockfree_ring_buffer_t* rb;
static DSVAR int rb_cap;
static DSVAR long rb_push_fail, rb_pop_fail;
static DSVAR uint64_t rb_base;
static void rb_setup(void) {
  int lg = (int)cfg_get("cap_log2", 1);
  rb_cap = 1 << lg;
  rb = lockfree_ring_buffer_create((uint32_t)lg);
  // the state an empty buffer is in after index_base push/pop pairs: both positions equal, every slot NULL
  long base = cfg_get("index_base", 0);
  if (base > 0) {
    rb->high += (uint64_t)base;
    rb->low += (uint64_t)base;
  }
  rb_base = rb->high;
  vs_watch(rb, sizeof *rb + sizeof(void*) * (size_t)rb_cap);
}
GHOST static void grb_occupancy(void) {
  vs_rt_enter();
  // completed pushes minus takes that have begun can never exceed the capacity
  if (n_pushed - n_taken - inflight_takes > rb_cap)
    vs_violation("capacity_exceeded", "ring buffer: %ld pushes completed, %ld pops completed, %d in flight, capacity %d", n_pushed, n_taken, inflight_takes, rb_cap);
  vs_rt_exit();
}
static int rb_do_op(int t, op_t* op) {
  if (!strcmp(op->name, "tpush")) {
    for (int i = 0; i < op->a; i++) {
      long v = gv_new(t);
      int id = lin_begin(t, OP_PUSH, v);
      if (lockfree_ring_buffer_trypush(rb, ENCV(v))) {
        lin_end(id, OP_PUSH, 0);
        gv_pushed(v);
        grb_occupancy();
      } else {
        lin_end(id, OP_PUSH_FAIL, 0);
        gv_push_failed(v);
        g_add(&rb_push_fail, 1);
      }
      if (op->b) ds_work(t, op->b);
    }
    return 1;
  }
  if (!strcmp(op->name, "bpush")) {
    // the waiting entry points (generated only in cases where blocking pushes and blocking pops balance)
    for (int i = 0; i < op->a; i++) {
      long v = gv_new(t);
      int id = lin_begin(t, OP_PUSH, v);
      lockfree_ring_buffer_push(rb, ENCV(v));
      lin_end(id, OP_PUSH, 0);
      gv_pushed(v);
      grb_occupancy();
      if (lockfree_ring_buffer_size(rb) > (size_t)rb_cap) vs_violation("capacity_exceeded", "lockfree_ring_buffer_size reports more than the capacity %d", rb_cap);
      if (op->b) ds_work(t, op->b);
    }
    return 1;
  }
  if (!strcmp(op->name, "bpop")) {
    for (int i = 0; i < op->a; i++) {
      uint64_t inv = gv_take_begin();
      int id = lin_begin(t, OP_POP, 0);
      void* r = lockfree_ring_buffer_pop(rb);
      lin_end(id, OP_POP, DECV(r));
      gv_taken(t, DECV(r), inv, "ring buffer pop");
      if (op->b) ds_work(t, op->b);
    }
    return 1;
  }
  if (!strcmp(op->name, "tpop")) {
    for (int i = 0; i < op->a; i++) {
      uint64_t inv = gv_take_begin();
      int id = lin_begin(t, OP_POP, 0);
      void* r = lockfree_ring_buffer_trypop(rb);
      if (r) {
        lin_end(id, OP_POP, DECV(r));
        gv_taken(t, DECV(r), inv, "ring buffer trypop");
      } else {
        lin_end(id, OP_POP_EMPTY, 0);
        gv_take_end_empty();
        g_add(&rb_pop_fail, 1);
      }
      if (op->b) ds_work(t, op->b);
    }
    return 1;
  }
  return 0;
}
static void rb_final(void) {
  for (;;) {
    uint64_t inv = gv_take_begin();
    int id = lin_begin(99, OP_POP, 0);
    void* r = lockfree_ring_buffer_trypop(rb);
    if (!r) {
      lin_end(id, OP_POP_EMPTY, 0);
      gv_take_end_empty();
      break;
    }
    lin_end(id, OP_POP, DECV(r));
    gv_taken(99, DECV(r), inv, "ring buffer final drain");
  }
  gv_final_conservation("ring buffer");
  gv_fifo_realtime("ring buffer", 0);
  lin_verdict("lockfree_ring_buffer", MODEL_FIFO, rb_cap, EXCUSE_ANY_OVERLAP);
  vs_label_add("ring_push_fail", (uint64_t)rb_push_fail);
  vs_label_add("ring_pop_fail", (uint64_t)rb_pop_fail);
  vs_label_add("overlapping_ops", (uint64_t)n_overlap_ops);
  vs_label_max("ring_index_reached", (uint64_t)rb->high);
  if (n_overlap_ops >= 1 && (uint64_t)rb->high - rb_base > (uint64_t)rb_cap) rt_nontrivial("ring");
}
static const ds_harness_t ds_ring = {rb_setup, 0, rb_do_op, rb_final};
static void rb_entry(void* a) {
  (void)a;
  ds_run(&ds_ring);
}
const harness_t h_ring = {"ring", 0, 0, 0, 0, 0, rb_entry};

// =============================================================== C17 work queue
// Two queues: cfg nested 1 makes the handler of every second item of queue 0 push a fresh item onto queue 1 (and work it off
// there and then if told to): worker sessions of different queues nest on one thread.
#define NWQ 2
static DSVAR work_queue_t wqs[NWQ];
#define wq wqs[0]
#define MAX_SESS 512
static DSVAR uint64_t sess_start[MAX_SESS], sess_end[MAX_SESS];
static DSVAR uint8_t sess_q[MAX_SESS];
static DSVAR int n_sess;
static DSVAR long wq_queued, wq_started, wq_nested_sessions;
static DSVAR uint8_t wq_was_queued[MAXV], v_queue[MAXV];
static DSVAR int wq_nested;

GHOST static int gwq_session_begin(int q) {
  vs_rt_enter();
  if (n_sess >= MAX_SESS) vs_violation("engine_limit", "too many worker sessions");
  sess_start[n_sess] = ++gclock;
  sess_end[n_sess] = 0;
  sess_q[n_sess] = (uint8_t)q;
  vs_rt_exit();
  return n_sess++;
}
GHOST static uint64_t gwq_tick(void) { return ++gclock; }
GHOST static void gwq_session_end(int s, uint64_t at) {
  vs_rt_enter();
  sess_end[s] = at;
  // the worker was told EMPTY by a call invoked at 'at': every item of that queue whose push had already returned QUEUED by
  // then must have been handed out - otherwise it sits in the queue with nobody working
  for (long v = 1; v < next_val; v++)
    if (v_pushed[v] && v_queue[v] == sess_q[s] && wq_was_queued[v] && v_push_resp[v] < at && !v_taken[v])
      vs_violation("item_stranded", "work queue %d: the active worker was told EMPTY while item %ld (its push by thread %d had returned QUEUED before that call) is still queued",
                   sess_q[s], v, v_pusher[v]);
  vs_rt_exit();
}
GHOST static void gwq_note_queued(long v) { wq_was_queued[v] = 1; }
GHOST static void gwq_note_queue(long v, int q) { v_queue[v] = (uint8_t)q; }
static DSVAR int wq_presession = -1;
static void wq_push_one(int t, int q, int work, int depth);
static void wq_work_loop(int t, int q, int s, int work, int depth) {
  for (;;) {
    uint64_t inv = gv_take_begin();
    uint64_t at = gwq_tick();
    work_queue_item_t* out = 0;
    int g = work_queue_get_work(&wqs[q], &out);
    if (g == WORK_QUEUE_EMPTY) {
      gv_take_end_empty();
      gwq_session_end(s, at);
      break;
    }
    long v = (long)out->data;
    gv_taken(t, v, inv, "work_queue_get_work");
    free(out);
    if (work) ds_work(t, work);
    // the handler of an item of queue 0 hands follow-up work to queue 1
    if (wq_nested && q == 0 && depth == 0 && v % 2 == 0) wq_push_one(t, 1, work, 1);
  }
}
static void wq_push_one(int t, int q, int work, int depth) {
  long v = gv_new(t);
  gwq_note_queue(v, q);
  work_queue_item_t* it = malloc(sizeof *it);
  it->data = (void*)v;
  int r = work_queue_push(&wqs[q], it);
  if (r != WORK_QUEUE_START_WORKING) gwq_note_queued(v);
  gv_pushed(v);
  if (r == WORK_QUEUE_START_WORKING) {
    int s = gwq_session_begin(q);
    g_add(&wq_started, 1);
    if (depth) g_add(&wq_nested_sessions, 1);
    wq_work_loop(t, q, s, work, depth);
  } else {
    g_add(&wq_queued, 1);
  }
}
static void wq_setup(void) {
  wq_nested = (int)cfg_get("nested", 0);
  for (int q = 0; q < NWQ; q++) {
    RT_DIRTY(wqs[q]);
    work_queue_init(&wqs[q]);
    vs_watch(&wqs[q], sizeof wqs[q]);
  }
  wq_presession = -1;
  long base = cfg_get("session_base", 0);
  if (base > 0) {
    // start inside a worker session that has already handed out 'base' items: thread 0 pushed the first item, was told to
    // start working, and 'base' further push / get_work pairs have gone by (in_count and out_count both advanced by base);
    // thread 0 continues that session with its first op
    long v = gv_new(0);
    work_queue_item_t* it = malloc(sizeof *it);
    it->data = (void*)v;
    int r = work_queue_push(&wq, it);
    gv_pushed(v);
    if (r != WORK_QUEUE_START_WORKING) vs_violation("two_workers", "work queue: the first push into a fresh queue was not told to start working");
    wq_presession = gwq_session_begin(0);
    g_add(&wq_started, 1);
    wq.in_count += base;
    wq.out_count += base;
  }
}
static int wq_do_op(int t, op_t* op) {
  if (t == 0 && wq_presession >= 0) {
    // thread 0 is the worker of the session the case starts in (cfg session_base)
    int s = wq_presession;
    wq_presession = -1;
    wq_work_loop(t, 0, s, op->b, 0);
  }
  if (!strcmp(op->name, "wresume")) return 1;
  if (strcmp(op->name, "wpush")) return 0;
  for (int i = 0; i < op->a; i++) {
    wq_push_one(t, 0, op->b, 0);
    if (op->c) ds_work(t, op->c);
  }
  return 1;
}
GHOST static void wq_final_ghost(void) {
  vs_rt_enter();
  // worker sessions of one queue are pairwise disjoint
  for (int i = 0; i < n_sess; i++)
    for (int j = i + 1; j < n_sess; j++) {
      if (sess_q[i] != sess_q[j]) continue;
      uint64_t ei = sess_end[i] ? sess_end[i] : ~0ull, ej = sess_end[j] ? sess_end[j] : ~0ull;
      if (sess_start[i] < ej && sess_start[j] < ei)
        vs_violation("two_workers", "work queue %d: two callers were told to start working at the same time (sessions [%llu,%llu] and [%llu,%llu])", sess_q[i],
                     (unsigned long long)sess_start[i], (unsigned long long)sess_end[i], (unsigned long long)sess_start[j], (unsigned long long)sess_end[j]);
    }
  for (long v = 1; v < next_val; v++)
    if (v_pushed[v] && !v_taken[v]) vs_violation("item_stranded", "work queue %d: item %ld (pushed by thread %d) was left queued with no active worker", v_queue[v], v, v_pusher[v]);
  vs_label_add("wq_sessions", (uint64_t)n_sess);
  vs_label_add("wq_nested_sessions", (uint64_t)wq_nested_sessions);
  vs_label_add("wq_queued_pushes", (uint64_t)wq_queued);
  if (wq_queued > 0 && n_sess > 0) rt_nontrivial("workq");
  vs_rt_exit();
}
static void wq_final(void) { wq_final_ghost(); }
static const ds_harness_t ds_wq = {wq_setup, 0, wq_do_op, wq_final};
static void wq_entry(void* a) {
  (void)a;
  ds_run(&ds_wq);
}
const harness_t h_workq = {"workq", 0, 0, 0, 0, 0, wq_entry};

// =============================================================== C20(a) LIFO, dist FIFO, flushable stack
enum { D_LIFO = 0, D_DIST = 1, D_STACK = 2 };
static DSVAR int d_kind;
static DSVAR mpmc_lifo_t d_lifo;
static dist_fifo_t d_dist __attribute__((aligned(64)));
static DSVAR mpmc_stack_t d_stack;
static DSVAR long d_retry, d_reuse;

static void d_setup(void) {
  d_kind = (int)cfg_get("dkind", 0);
  if (d_kind == D_LIFO) {
    RT_DIRTY(d_lifo);
    mpmc_lifo_init(&d_lifo);
    vs_watch(&d_lifo, sizeof d_lifo);
  } else if (d_kind == D_DIST) {
    RT_DIRTY(d_dist);
    dist_fifo_init(&d_dist);
    vs_watch(&d_dist, sizeof d_dist);
  } else {
    RT_DIRTY(d_stack);
    mpmc_stack_init(&d_stack);
    vs_watch(&d_stack, sizeof d_stack);
  }
}
static void d_push(int t, void* reuse) {
  long v = gv_new(t);
  int id = lin_begin(t, OP_PUSH, v);
  if (d_kind == D_LIFO) {
    mpmc_lifo_node_t* n = reuse ? reuse : malloc(sizeof *n);
    n->data = (void*)v;
    mpmc_lifo_push(&d_lifo, n);
  } else if (d_kind == D_DIST) {
    dist_fifo_node_t* n = reuse ? reuse : malloc(sizeof *n);
    n->data = (void*)v;
    dist_fifo_push(&d_dist, n);
  } else {
    mpmc_stack_node_t* n = reuse ? reuse : malloc(sizeof *n);
    mpmc_stack_node_init(n, (void*)v);
    // both entry points: every third value goes through the bounded-retry variant (1-3 tries per call, called again until it
    // reports success; a call that gives up must leave the stack as it found it)
    if (v % 3 == 0) {
      while (mpmc_stack_push_timeout(&d_stack, n, (size_t)(1 + v % 2 + v % 5 % 2)) != MPMC_SUCCESS) g_add(&d_retry, 1);
    } else {
      mpmc_stack_push(&d_stack, n);
    }
  }
  lin_end(id, OP_PUSH, 0);
  gv_pushed(v);
}
static int d_do_op(int t, op_t* op) {
  if (!strcmp(op->name, "push")) {
    for (int i = 0; i < op->a; i++) {
      d_push(t, 0);
      if (op->b) ds_work(t, op->b);
    }
    return 1;
  }
  if (!strcmp(op->name, "pop") || !strcmp(op->name, "poppush")) {
    int re = op->name[3] == 'p';
    for (int i = 0; i < op->a; i++) {
      uint64_t inv = gv_take_begin();
      int id = lin_begin(t, OP_POP, 0);
      if (d_kind == D_LIFO) {
        mpmc_lifo_node_t* n = mpmc_lifo_pop(&d_lifo);
        if (n) {
          long v = (long)n->data;
          lin_end(id, OP_POP, v);
          gv_taken(t, v, inv, "mpmc_lifo_pop");
          if (re) {
            // immediate reuse of the node while others may hold a stale snapshot of it
            g_add(&d_reuse, 1);
            d_push(t, n);
          }
        } else {
          lin_end(id, OP_POP_EMPTY, 0);
          gv_take_end_empty();
        }
      } else if (d_kind == D_DIST) {
        dist_fifo_node_t* n = dist_fifo_trypop(&d_dist);
        if (n == DIST_FIFO_RETRY) {
          lin_end(id, OP_NOOP, 0);
          gv_take_end_empty();
          g_add(&d_retry, 1);
        } else if (n == DIST_FIFO_EMPTY) {
          lin_end(id, OP_POP_EMPTY, 0);
          gv_take_end_empty();
        } else {
          long v = (long)n->data;
          lin_end(id, OP_POP, v);
          gv_taken(t, v, inv, "dist_fifo_trypop");
        }
      }
      if (op->b) ds_work(t, op->b);
    }
    return 1;
  }
  if (!strcmp(op->name, "flush")) {
    // a: 0 lifo flush, 1 fifo flush
    uint64_t inv = gv_take_begin();
    int id = lin_begin(t, op->a ? OP_FLUSH_FIFO : OP_FLUSH_LIFO, 0);
    mpmc_stack_node_t* n = op->a ? mpmc_stack_fifo_flush(&d_stack) : mpmc_stack_lifo_flush(&d_stack);
    hop_t* h = &lin_ops()[id];
    h->nvals = 0;
    int first = 1;
    while (n) {
      long v = (long)mpmc_stack_node_get_data(n);
      if (h->nvals < LIN_MAX_VALS) h->vals[h->nvals++] = v;
      if (first) {
        gv_taken(t, v, inv, "mpmc_stack flush");
        first = 0;
      } else {
        uint64_t inv2 = gv_take_begin();
        (void)inv2;
        gv_taken(t, v, inv, "mpmc_stack flush");
      }
      n = n->next;
    }
    if (first) gv_take_end_empty();
    lin_end(id, op->a ? OP_FLUSH_FIFO : OP_FLUSH_LIFO, h->nvals);
    return 1;
  }
  return 0;
}
static void d_final(void) {
  if (d_kind == D_STACK) {
    op_t f = {"flush", 1, 0, 0};
    d_do_op(99, &f);
  } else {
    for (;;) {
      uint64_t inv = gv_take_begin();
      int id = lin_begin(99, OP_POP, 0);
      long v = 0;
      int got = 0;
      if (d_kind == D_LIFO) {
        mpmc_lifo_node_t* n = mpmc_lifo_pop(&d_lifo);
        if (n) v = (long)n->data, got = 1;
      } else {
        dist_fifo_node_t* n = dist_fifo_trypop(&d_dist);
        if (n == DIST_FIFO_RETRY) {
          lin_end(id, OP_NOOP, 0);
          gv_take_end_empty();
          continue;
        }
        if (n != DIST_FIFO_EMPTY) v = (long)n->data, got = 1;
      }
      if (!got) {
        lin_end(id, OP_POP_EMPTY, 0);
        gv_take_end_empty();
        break;
      }
      lin_end(id, OP_POP, v);
      gv_taken(99, v, inv, "final drain");
    }
  }
  gv_final_conservation(d_kind == D_LIFO ? "mpmc_lifo" : d_kind == D_DIST ? "dist_fifo" : "mpmc_stack");
  if (d_kind == D_DIST) gv_fifo_realtime("dist_fifo", 0);
  lin_verdict(d_kind == D_LIFO ? "mpmc_lifo" : d_kind == D_DIST ? "dist_fifo" : "mpmc_stack", d_kind == D_DIST ? MODEL_FIFO : MODEL_LIFO, 0, EXCUSE_NONE);
  vs_label_add("dwcas_retry", (uint64_t)d_retry);
  vs_label_add("node_reuse", (uint64_t)d_reuse);
  vs_label_add("overlapping_ops", (uint64_t)n_overlap_ops);
  if (n_overlap_ops >= 1 && n_taken > 0) rt_nontrivial("dwcas");
}
static const ds_harness_t ds_dwcas = {d_setup, 0, d_do_op, d_final};
static void d_entry(void* a) {
  (void)a;
  ds_run(&ds_dwcas);
}
const harness_t h_dwcas = {"dwcas", 0, 0, 0, 0, 0, d_entry};
