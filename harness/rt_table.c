#include "rt.h"
extern const harness_t h_mutex;
const harness_t* const all_harnesses[] = {&h_mutex, 0};
