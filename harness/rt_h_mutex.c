// C03 mutex harness (also used as a building block of "mixed")
#include <string.h>

#include "fiber_manager.h"
#include "fiber_mutex.h"
#include "rt.h"

extern void rt_work(int idx, int n);

#define NM 4
static fiber_mutex_t mtx[NM];
static volatile long cell[NM];
// ghost
static int holder[NM];
static long ghost_last[NM];
static long cs_count[NM];
static int contended_locks, try_ok, try_fail;

GHOST static void gh_acquire(int m, int idx, int via_try) {
  vs_rt_enter();
  if (holder[m] != -1)
    vs_violation(via_try ? "try_illegal_success" : "mutex_overlap", "fiber %d %s mutex %d while fiber %d holds it", idx,
                 via_try ? "trylocked" : "locked", m, holder[m]);
  holder[m] = idx;
  vs_rt_exit();
}
GHOST static void gh_release(int m, int idx) {
  vs_rt_enter();
  if (holder[m] != idx) vs_violation("mutex_overlap", "fiber %d releases mutex %d held by %d", idx, m, holder[m]);
  holder[m] = -1;
  cs_count[m]++;
  vs_rt_exit();
}
GHOST static void gh_check_visible(int m, int idx, long v) {
  vs_rt_enter();
  if (v != ghost_last[m])
    vs_violation("value_mismatch", "fiber %d entered mutex %d and read %ld but the previous owner left %ld", idx, m, v, ghost_last[m]);
  ghost_last[m] = v + 1;
  vs_rt_exit();
}
GHOST static void gh_note(int* counter) { (*counter)++; }

static void critical(int idx, int m, int y, int w) {
  long v = cell[m];
  gh_check_visible(m, idx, v);
  for (int i = 0; i < y; i++) fiber_yield();
  if (w) rt_work(idx, w);
  cell[m] = v + 1;
}

static void mutex_setup(void) {
  long n = cfg_get("nmutex", 1);
  for (int i = 0; i < n && i < NM; i++) {
    RT_DIRTY(mtx[i]);
    fiber_mutex_init(&mtx[i]);
    holder[i] = -1;
    vs_watch(&mtx[i], sizeof mtx[i]);
  }
}

// "lockcrowd m n": the fiber takes mutex m, starts n further fibers that each lock it, run the critical section and unlock,
// lets them all run into the held mutex, and releases it (any number of blocked waiters; anonymous fibers 1000, 1001, ...)
static int crowd_next_id = 1000;
static long crowd_done;
static void* crowd_locker(void* p) {
  int m = (int)((intptr_t)p & 7), id = (int)((intptr_t)p >> 3);
  fiber_mutex_lock(&mtx[m]);
  gh_acquire(m, id, 0);
  critical(0, m, 0, 0);
  gh_release(m, id);
  fiber_mutex_unlock(&mtx[m]);
  gh_note((int*)&crowd_done);
  return 0;
}

static int mutex_do_op(int idx, op_t* op) {
  int m = op->a % NM;
  if (!strcmp(op->name, "lockcrowd")) {
    fiber_mutex_lock(&mtx[m]);
    gh_acquire(m, idx, 0);
    long v = cell[m];
    gh_check_visible(m, idx, v);
    for (int i = 0; i < op->b; i++) {
      fiber_t* f = fiber_create(8192, &crowd_locker, (void*)(((intptr_t)crowd_next_id++ << 3) | m));
      if (!f) vs_violation("engine_limit", "fiber_create failed");
      fiber_detach(f);
    }
    for (int i = 0; i < 3; i++) fiber_yield();
    gh_note(&contended_locks);
    cell[m] = v + 1;
    gh_release(m, idx);
    fiber_mutex_unlock(&mtx[m]);
    return 1;
  }
  if (!strcmp(op->name, "lock")) {
    int before = g_fiber_switches(idx);
    fiber_mutex_lock(&mtx[m]);
    if (g_fiber_switches(idx) != before) gh_note(&contended_locks);
    gh_acquire(m, idx, 0);
    critical(idx, m, op->b, op->c);
    gh_release(m, idx);
    fiber_mutex_unlock(&mtx[m]);
    return 1;
  }
  if (!strcmp(op->name, "trylock")) {
    g_nb_enter(idx);
    int r = fiber_mutex_trylock(&mtx[m]);
    g_nb_exit(idx);
    if (r == FIBER_SUCCESS) {
      gh_note(&try_ok);
      gh_acquire(m, idx, 1);
      critical(idx, m, op->b, op->c);
      gh_release(m, idx);
      fiber_mutex_unlock(&mtx[m]);
    } else {
      gh_note(&try_fail);
    }
    return 1;
  }
  return 0;
}

GHOST static void mutex_final(void) {
  vs_rt_enter();
  long n = cfg_get("nmutex", 1);
  for (int i = 0; i < n && i < NM; i++) {
    if (mtx[i].counter != 1) vs_violation("value_mismatch", "mutex %d counter is %d after all fibers finished (expected 1)", i, (int)mtx[i].counter);
    if (cell[i] != cs_count[i]) vs_violation("value_mismatch", "mutex %d protected cell is %ld after %ld critical sections", i, cell[i], cs_count[i]);
  }
  vs_label_max("crowd", (uint64_t)(crowd_next_id - 1000));
  vs_label_add("contended_locks", contended_locks);
  vs_label_add("trylock_ok", try_ok);
  vs_label_add("trylock_fail", try_fail);
  if (contended_locks > 0) rt_nontrivial("mutex");
  vs_rt_exit();
}

const harness_t h_mutex = {"mutex", mutex_setup, mutex_do_op, 0, mutex_final, 0};
